"""T1 -- source model of the package under analysis (stdlib ``ast`` only).

The model is built from a mapping ``{relative path: source text}`` so that the same code
serves the real tree (read from /repo on every run) and in-memory mutants (self-test).
Anchors are qualified names (``runner.Runner.run_tests``, ``filter.build_filtering_func.accept``);
a missing anchor raises ``AnchorVanished`` which the CLI turns into ANALYSIS-ERROR / exit 2.
"""
import ast
import hashlib
import os

from .normalise import normalise

PKG = 'zope.testrunner'
PKG_DIR = 'src/zope/testrunner'


class AnalysisError(Exception):
    """The analysis cannot decide (anchor vanished, unknown shape, floor not met)."""


class AnchorVanished(AnalysisError):
    pass


class Undecided(AnalysisError):
    pass


def repo_root():
    return os.environ.get('VERIF_REPO', '/repo')


def load_sources(root=None):
    """Read every non-test module of the package from the working tree."""
    root = root or repo_root()
    base = os.path.join(root, PKG_DIR)
    out = {}
    if not os.path.isdir(base):
        raise AnchorVanished('package directory %s not found' % base)
    for fn in sorted(os.listdir(base)):
        if fn.endswith('.py'):
            with open(os.path.join(base, fn), encoding='utf-8') as f:
                out[fn[:-3]] = f.read()
    return out


class FuncInfo:
    __slots__ = ('qualname', 'module', 'node', 'cls', 'parent', 'name')

    def __init__(self, qualname, module, node, cls, parent):
        self.qualname = qualname      # e.g. 'runner.Runner.run_tests'
        self.module = module          # ModuleInfo
        self.node = node              # ast.FunctionDef
        self.cls = cls                # ClassInfo or None
        self.parent = parent          # enclosing FuncInfo or None
        self.name = node.name

    @property
    def lineno(self):
        return self.node.lineno

    def __repr__(self):
        return '<func %s>' % self.qualname


class ClassInfo:
    __slots__ = ('qualname', 'module', 'node', 'bases', 'methods', 'name', 'attrs')

    def __init__(self, qualname, module, node):
        self.qualname = qualname
        self.module = module
        self.node = node
        self.name = node.name
        self.bases = []       # dotted strings as written, resolved lazily
        self.methods = {}     # name -> FuncInfo
        self.attrs = {}       # class-level simple assignments name -> ast expr

    def __repr__(self):
        return '<class %s>' % self.qualname


def _cross_module_helpers(sources):
    """T0 across modules: a module-level function that is NOT in the anchor table of its module (it
    was introduced after the rules were written) and is called from another module of the package
    (``pkg.mod.f(...)``, ``mod.f(...)`` or ``from .mod import f``) is copied next to its caller under
    a private name, so that the per-module normaliser can inline it there like a local helper.
    Returns {module name: parsed tree}.  On the tree the table was frozen from nothing is new, so
    this is the identity there."""
    import copy
    from .normalise import table
    trees = {}
    for name, src in sources.items():
        trees[name] = ast.parse(src)
    new_funcs = {}
    for name, tree in trees.items():
        known = table().get(name)
        if known is None:
            continue
        kf = set(known.get('functions', ()))
        for st in tree.body:
            if isinstance(st, ast.FunctionDef) and st.name not in kf and not st.decorator_list and \
                    not any(isinstance(x, (ast.Yield, ast.YieldFrom, ast.Global, ast.Nonlocal))
                            for x in ast.walk(st)):
                new_funcs[(name, st.name)] = st
    if not new_funcs:
        return trees
    for aname, tree in trees.items():
        if table().get(aname) is None:
            continue
        imported = {}          # local name -> (module, function)
        for node in ast.walk(tree):
            if isinstance(node, ast.ImportFrom):
                mod = (node.module or '').split('.')[-1]
                for a in node.names:
                    if (mod, a.name) in new_funcs and mod != aname:
                        imported[a.asname or a.name] = (mod, a.name)
        added = {}
        for node in ast.walk(tree):
            if not isinstance(node, ast.Call):
                continue
            key = None
            f = node.func
            if isinstance(f, ast.Name) and f.id in imported:
                key = imported[f.id]
            elif isinstance(f, ast.Attribute) and isinstance(f.value, (ast.Name, ast.Attribute)):
                parts = []
                cur = f
                while isinstance(cur, ast.Attribute):
                    parts.append(cur.attr)
                    cur = cur.value
                if isinstance(cur, ast.Name):
                    parts.append(cur.id)
                    parts.reverse()
                    if len(parts) >= 2 and (parts[-2], parts[-1]) in new_funcs and parts[-2] != aname and \
                            (len(parts) == 2 or parts[:-2] == PKG.split('.')):
                        key = (parts[-2], parts[-1])
            if key is None:
                continue
            local = '_xm_%s_%s' % key
            if key not in added:
                fn = copy.deepcopy(new_funcs[key])
                fn.name = local
                added[key] = fn
            node.func = ast.copy_location(ast.Name(id=local, ctx=ast.Load()), node.func)
        if added:
            # the helper's free module-level names: bring the defining module's imports along
            bound = {n.id for n in ast.walk(tree) if isinstance(n, ast.Name) and isinstance(n.ctx, ast.Store)}
            for n in ast.walk(tree):
                if isinstance(n, (ast.Import, ast.ImportFrom)):
                    for a in n.names:
                        bound.add((a.asname or a.name).split('.')[0])
            extra = []
            for (bmod, _f), fn in added.items():
                used = {n.id for n in ast.walk(fn) if isinstance(n, ast.Name)}
                for st in trees[bmod].body:
                    if isinstance(st, (ast.Import, ast.ImportFrom)):
                        names = {(a.asname or a.name).split('.')[0] for a in st.names}
                        if names & used and not names & bound:
                            extra.append(copy.deepcopy(st))
                            bound |= names
            pos = 0
            while pos < len(tree.body) and (isinstance(tree.body[pos], (ast.Import, ast.ImportFrom)) or (
                    isinstance(tree.body[pos], ast.Expr) and isinstance(tree.body[pos].value, ast.Constant))):
                pos += 1
            tree.body[pos:pos] = extra + list(added.values())
            ast.fix_missing_locations(tree)
    return trees


def _unwrap_call_wrappers(tree, known):
    """a module-level function introduced after the anchor table was frozen whose whole body is
    ``return <first parameter>.method(*args, fixed=..., name=<parameter>, **kwargs)`` is a declaration
    helper (``_add_repeatable(group, '--x', dest='x', ...)`` around ``group.add_argument``): its
    module-level calls are rewritten to the wrapped call, so rules that read the declarations keep
    seeing them.  Identity on the frozen tree."""
    import copy
    kf = set((known or {}).get('functions', ()))
    wrappers = {}
    for st in tree.body:
        if not (isinstance(st, ast.FunctionDef) and st.name not in kf and not st.decorator_list):
            continue
        body = [x for x in st.body if not (isinstance(x, ast.Expr) and isinstance(x.value, ast.Constant))]
        if len(body) != 1 or not isinstance(body[0], (ast.Return, ast.Expr)):
            continue
        c = body[0].value
        a = st.args
        if not (isinstance(c, ast.Call) and isinstance(c.func, ast.Attribute) and a.args and
                isinstance(c.func.value, ast.Name) and c.func.value.id == a.args[0].arg):
            continue
        ok = True
        for x in c.args:
            if not (isinstance(x, ast.Starred) and isinstance(x.value, ast.Name) and a.vararg and
                    x.value.id == a.vararg.arg):
                ok = False
        for k in c.keywords:
            if k.arg is None and not (isinstance(k.value, ast.Name) and a.kwarg and k.value.id == a.kwarg.arg):
                ok = False
        if ok and len(a.args) == 1:
            wrappers[st.name] = (st, c)
    if not wrappers:
        return tree
    params_of = {}
    for name, (fn, c) in wrappers.items():
        params_of[name] = [x.arg for x in fn.args.kwonlyargs]
    for st in tree.body:
        if not (isinstance(st, (ast.Expr, ast.Assign)) and isinstance(st.value, ast.Call) and
                isinstance(st.value.func, ast.Name) and st.value.func.id in wrappers and st.value.args):
            continue
        call = st.value
        fn, c = wrappers[call.func.id]
        given = {k.arg: k.value for k in call.keywords if k.arg}
        kws = []
        for k in c.keywords:
            if k.arg is None:
                continue
            if isinstance(k.value, ast.Name) and k.value.id in params_of[call.func.id]:
                if k.value.id in given:
                    kws.append(ast.keyword(arg=k.arg, value=given.pop(k.value.id)))
                else:
                    dflt = dict(zip([x.arg for x in fn.args.kwonlyargs], fn.args.kw_defaults)).get(k.value.id)
                    if dflt is not None:
                        kws.append(ast.keyword(arg=k.arg, value=copy.deepcopy(dflt)))
            else:
                kws.append(ast.keyword(arg=k.arg, value=copy.deepcopy(k.value)))
        for nm, v in given.items():
            if nm not in params_of[call.func.id]:
                kws.append(ast.keyword(arg=nm, value=v))
        new = ast.Call(func=ast.Attribute(value=call.args[0], attr=c.func.attr, ctx=ast.Load()),
                       args=list(call.args[1:]), keywords=kws)
        st.value = ast.copy_location(new, call)
    ast.fix_missing_locations(tree)
    return tree


class ModuleInfo:
    def __init__(self, name, source, tree=None):
        self.name = name                       # short module name: 'runner'
        self.source = source
        self.normalised = {}
        from .normalise import table as _table
        tree = tree if tree is not None else ast.parse(source)
        if _table().get(name) is not None:
            tree = _unwrap_call_wrappers(tree, _table().get(name))
        self.tree = normalise(tree, name, self.normalised)
        from .canon import canonicalise
        self.renamed = []
        canonicalise(self.tree, name, self.renamed)
        self.lines = source.splitlines()
        self.imports = {}                      # local alias -> dotted target
        self.functions = {}                    # local qualname -> FuncInfo
        self.classes = {}                      # local qualname -> ClassInfo
        self.constants = {}                    # module-level NAME -> ast expr
        for p in ast.walk(self.tree):
            for c in ast.iter_child_nodes(p):
                c._parent = p
        self._collect()

    @property
    def path(self):
        return '%s/%s.py' % (PKG_DIR, self.name)

    def _collect(self):
        for node in ast.walk(self.tree):
            if isinstance(node, ast.Import):
                for a in node.names:
                    if a.asname:
                        self.imports[a.asname] = a.name
                    else:
                        # ``import a.b.c`` binds ``a``; dotted use resolves by text
                        self.imports.setdefault(a.name.split('.')[0], a.name.split('.')[0])
            elif isinstance(node, ast.ImportFrom):
                mod = node.module or ''
                if node.level:
                    mod = PKG + ('.' + mod if mod else '')
                for a in node.names:
                    self.imports[a.asname or a.name] = mod + '.' + a.name
        for st in self.tree.body:
            if isinstance(st, ast.Assign) and len(st.targets) == 1 and \
                    isinstance(st.targets[0], ast.Name):
                self.constants[st.targets[0].id] = st.value
        self._walk_defs(self.tree.body, '', None, None)

    def _walk_defs(self, body, prefix, cls, parent):
        for st in _iter_stmts(body):
            if isinstance(st, (ast.FunctionDef, ast.AsyncFunctionDef)):
                q = prefix + st.name
                fi = FuncInfo(self.name + '.' + q, self, st, cls, parent)
                # later definitions of the same name win (as at run time)
                self.functions[q] = fi
                if cls is not None and parent is None:
                    cls.methods[st.name] = fi
                self._walk_defs(st.body, q + '.', None, fi)
            elif isinstance(st, ast.ClassDef):
                q = prefix + st.name
                ci = ClassInfo(self.name + '.' + q, self, st)
                ci.bases = [dotted(b) for b in st.bases]
                for s2 in st.body:
                    if isinstance(s2, ast.Assign) and len(s2.targets) == 1 and \
                            isinstance(s2.targets[0], ast.Name):
                        ci.attrs[s2.targets[0].id] = s2.value
                self.classes[q] = ci
                self._walk_defs(st.body, q + '.', ci, parent)


def _iter_stmts(body):
    """Statements of a body including those nested in compound statements (but not in
    nested defs/classes)."""
    for st in body:
        yield st
        if isinstance(st, (ast.FunctionDef, ast.AsyncFunctionDef, ast.ClassDef)):
            continue
        for fld in ('body', 'orelse', 'finalbody'):
            sub = getattr(st, fld, None)
            if sub:
                yield from _iter_stmts(sub)
        for h in getattr(st, 'handlers', []) or []:
            yield from _iter_stmts(h.body)


def dotted(expr):
    """'a.b.c' for Name/Attribute chains, else None."""
    parts = []
    while isinstance(expr, ast.Attribute):
        parts.append(expr.attr)
        expr = expr.value
    if isinstance(expr, ast.Name):
        parts.append(expr.id)
        return '.'.join(reversed(parts))
    return None


class Model:
    def __init__(self, sources):
        self.sources = dict(sources)
        self.modules = {}
        try:
            trees = _cross_module_helpers(self.sources)
        except SyntaxError as e:
            raise AnalysisError('cannot parse: %s' % e)
        for name, src in sorted(sources.items()):
            try:
                self.modules[name] = ModuleInfo(name, src, trees.get(name))
            except SyntaxError as e:
                raise AnalysisError('cannot parse %s: %s' % (name, e))

    # ---- anchors -----------------------------------------------------------------
    def module(self, name):
        if name not in self.modules:
            raise AnchorVanished('module %s' % name)
        return self.modules[name]

    def func(self, qualname):
        mod, _, rest = qualname.partition('.')
        m = self.module(mod)
        if rest not in m.functions:
            raise AnchorVanished('function %s' % qualname)
        return m.functions[rest]

    def has_func(self, qualname):
        mod, _, rest = qualname.partition('.')
        return mod in self.modules and rest in self.modules[mod].functions

    def cls(self, qualname):
        mod, _, rest = qualname.partition('.')
        m = self.module(mod)
        if rest not in m.classes:
            raise AnchorVanished('class %s' % qualname)
        return m.classes[rest]

    def all_functions(self):
        for m in self.modules.values():
            yield from m.functions.values()

    def all_classes(self):
        for m in self.modules.values():
            yield from m.classes.values()

    # ---- name resolution ---------------------------------------------------------
    def resolve_dotted(self, module, name):
        """Resolve a dotted name written in *module* to a canonical dotted string.
        In-package targets come back as 'zope.testrunner.<mod>.<qual>'; everything else as the
        fully expanded external name ('os.unlink', 'subprocess.Popen', 'unittest.TestResult.startTest').
        """
        if name is None:
            return None
        head, _, rest = name.partition('.')
        m = module if isinstance(module, ModuleInfo) else self.module(module)
        if head in m.imports:
            full = m.imports[head] + ('.' + rest if rest else '')
        elif head in m.functions or head in m.classes or head in m.constants:
            full = '%s.%s.%s' % (PKG, m.name, name)
        else:
            full = name
        # follow one level of re-export through package modules
        # (``from zope.testrunner.find import name_from_layer`` -> zope.testrunner.find.name_from_layer)
        return full

    def lookup(self, canonical):
        """canonical 'zope.testrunner.mod.qual' -> FuncInfo / ClassInfo / None"""
        if not canonical or not canonical.startswith(PKG + '.'):
            return None
        rest = canonical[len(PKG) + 1:]
        mod, _, qual = rest.partition('.')
        m = self.modules.get(mod)
        if m is None:
            return None
        if qual in m.functions:
            return m.functions[qual]
        if qual in m.classes:
            return m.classes[qual]
        # alias re-exported from that module (e.g. runner.name_from_layer)
        head, _, tail = qual.partition('.')
        if head in m.imports:
            return self.lookup(m.imports[head] + ('.' + tail if tail else ''))
        # method of class
        cq, _, meth = qual.rpartition('.')
        if cq in m.classes:
            return self.find_method(m.classes[cq], meth)
        return None

    def resolve_class(self, module, name):
        r = self.lookup(self.resolve_dotted(module, name))
        return r if isinstance(r, ClassInfo) else None

    def mro(self, ci):
        """Linearised in-package ancestry (depth first, left to right; enough here)."""
        out, seen = [], set()

        def go(c):
            if c.qualname in seen:
                return
            seen.add(c.qualname)
            out.append(c)
            for b in c.bases:
                bc = self.resolve_class(c.module, b) if b else None
                if bc is not None:
                    go(bc)
        go(ci)
        return out

    def external_bases(self, ci):
        out = []
        for c in self.mro(ci):
            for b in c.bases:
                if b and self.resolve_class(c.module, b) is None:
                    out.append(self.resolve_dotted(c.module, b))
        return out

    def find_method(self, ci, name):
        for c in self.mro(ci):
            if name in c.methods:
                return c.methods[name]
        return None

    def subclasses(self, ci):
        return [c for c in self.all_classes() if ci in self.mro(c) and c is not ci]

    def digest(self):
        h = hashlib.sha256()
        for k in sorted(self.sources):
            h.update(k.encode())
            h.update(self.sources[k].encode())
        return h.hexdigest()[:16]

    def stats(self):
        return {'modules': len(self.modules),
                'functions': sum(len(m.functions) for m in self.modules.values()),
                'classes': sum(len(m.classes) for m in self.modules.values())}


def norm(node):
    """Normalised one-line text of a statement/expression: the key for known findings."""
    try:
        s = ast.unparse(node)
    except Exception:  # pragma: no cover
        s = ast.dump(node)
    s = ' '.join(s.split())
    return s if len(s) <= 160 else s[:157] + '...'


def head(node):
    """Normalised text of the header of a compound statement / whole simple statement."""
    if isinstance(node, (ast.If, ast.While)):
        return '%s %s:' % (type(node).__name__.lower(), norm(node.test))
    if isinstance(node, ast.For):
        return 'for %s in %s:' % (norm(node.target), norm(node.iter))
    if isinstance(node, ast.With):
        return 'with %s:' % ', '.join(norm(i) for i in node.items)
    if isinstance(node, ast.Try):
        return 'try:'
    if isinstance(node, (ast.FunctionDef, ast.ClassDef)):
        return 'def %s' % node.name
    if isinstance(node, ast.ExceptHandler):
        return 'except %s:' % (norm(node.type) if node.type else '')
    return norm(node)


def loc(fi_or_mod, node):
    m = fi_or_mod.module if isinstance(fi_or_mod, (FuncInfo, ClassInfo)) else fi_or_mod
    return '%s:%s' % (m.path, getattr(node, 'lineno', '?'))
