"""T5b -- exploration of (unittest driver protocol) x (abstract TestResult state) to a fixpoint.

The driver protocol (who calls the result callbacks, in which order) is the table of DESIGN.md
3.2; the transfer function of every callback is obtained by abstract interpretation of the
method's AST (sa.absint) on every run.  All reachable states are enumerated breadth first, so
a counterexample is a shortest protocol word.
"""
import itertools
from collections import deque

from .absint import FALSE, NONE, OPAQUE, Interp, freeze

# ---- the driver protocol -------------------------------------------------------------------
# protocol states: IDLE (between tests)  RUN (started, nothing bad yet)  BAD (a bad/skip event
# was reported: no final event may follow)  FIN (final event reported)  SKIP0 (addSkip arrived
# without startTest)  END (a callback raised EndRun: only stopTest follows, then the run ends)
E_TEST = ('param', 'test')
EXC = ('tuple', (OPAQUE, OPAQUE, OPAQUE))

EVENTS = {
    'startTest': ('startTest', (E_TEST,)),
    'stopTest': ('stopTest', (E_TEST,)),
    'addSuccess': ('addSuccess', (E_TEST,)),
    'addSkip': ('addSkip', (E_TEST, ('str', 'reason'))),
    # unittest's testPartExecutor reports a SkipTest raised inside a ``with self.subTest()`` block
    # as addSkip(<the _SubTest object>, reason) -- a different object than the started test
    'addSkip(sub)': ('addSkip', (('param', 'subtest'), ('str', 'reason'))),
    'addError': ('addError', (E_TEST, EXC)),
    'addFailure': ('addFailure', (E_TEST, EXC)),
    'addExpectedFailure': ('addExpectedFailure', (E_TEST, EXC)),
    'addUnexpectedSuccess': ('addUnexpectedSuccess', (E_TEST,)),
    'addSubTest(exc)': ('addSubTest', (E_TEST, ('param', 'subtest'), EXC)),
    'addSubTest(None)': ('addSubTest', (E_TEST, ('param', 'subtest'), NONE)),
}
BAD_E = ('addError', 'addFailure', 'addSubTest(exc)')
FINALS = ('addSuccess', 'addExpectedFailure', 'addUnexpectedSuccess')


def protocol(variant):
    t = []
    t.append(('IDLE', 'startTest', 'RUN'))
    for e in BAD_E + ('addSkip', 'addSkip(sub)'):
        t.append(('RUN', e, 'BAD'))
        t.append(('BAD', e, 'BAD'))
    t.append(('RUN', 'addSubTest(None)', 'RUN'))
    t.append(('BAD', 'addSubTest(None)', 'BAD'))
    for e in FINALS:
        t.append(('RUN', e, 'FIN'))
    for s in ('RUN', 'BAD', 'FIN'):
        t.append((s, 'stopTest', 'IDLE'))       # RUN -> stopTest = KeyboardInterrupt
    if variant == 'V-skip-first':
        t.append(('IDLE', 'addSkip', 'SKIP0'))
        t.append(('SKIP0', 'stopTest', 'IDLE'))
    if variant == 'V-debug':
        # the post-mortem loop of runner.run_tests drives the result itself:
        # startTest . (addSkip | addError | addSuccess)? . stopTest
        t = [('IDLE', 'startTest', 'RUN'), ('RUN', 'addSkip', 'FIN'), ('RUN', 'addError', 'FIN'),
             ('RUN', 'addSuccess', 'FIN'), ('RUN', 'stopTest', 'IDLE'), ('FIN', 'stopTest', 'IDLE')]
    t.append(('END', 'stopTest', 'STOPPED'))
    return t


VARIANTS = ('V-start-first', 'V-skip-first', 'V-debug')
ATOMS = ('buffer', 'post_mortem', 'stop_on_error', 'resume_layer')


class Transition:
    __slots__ = ('variant', 'config', 'word', 'event', 'src', 'dst', 'pre', 'post', 'ctrl', 'events',
                 'method')

    def __init__(self, **kw):
        for k, v in kw.items():
            setattr(self, k, v)

    def word_str(self):
        return ' . '.join(self.word)

    def config_str(self):
        return ','.join('%s=%s' % (k, int(v)) for k, v in sorted(self.config.items()))


class Exploration:
    def __init__(self):
        self.transitions = []
        self.states = 0
        self.tampered = []          # transitions after the running test re-bound a std stream itself
        self.configs = 0
        self.approx = set()
        self.init_events = []


def initial_state(interp, rep_events):
    st = {'sys.stdout': ('obj', 'orig:sys.stdout', frozenset(['write', 'flush'])),
          'sys.stderr': ('obj', 'orig:sys.stderr', frozenset(['write', 'flush'])),
          'hooks': 'down', 'stop': False, 'tr': (0, 0)}
    fi = interp.method('__init__')
    names = [a.arg for a in fi.node.args.args][1:] if fi is not None else []
    outs = interp.call_method('__init__', [('options',) if n == 'options' else OPAQUE
                                           for n in names], st)
    res = []
    for post, ctrl, ev, val in outs:
        if ctrl is not None:
            rep_events.append(('init-raises', ctrl))
            continue
        post = dict(post)
        post['tr'] = (0, 0)
        res.append(post)
        rep_events.extend(ev)
    return res


def normalise_idle(st):
    st = dict(st)
    st['tr'] = (0, 0)
    st.pop('had_bad', None)
    st.pop('tampered', None)
    for k in [k for k in st if k.startswith('tdict:')]:
        del st[k]                    # the next test is another object with its own dictionary
    for k, v in list(st.items()):
        if isinstance(v, tuple) and v and v[0] in ('tdict', 'dcopy'):
            st[k] = OPAQUE
            continue
        if isinstance(v, tuple) and v and v[0] in ('enum', 'enumf'):
            st[k] = (v[0], v[1], 'older')
        elif isinstance(v, tuple) and len(v) == 2 and v[0] == 'param' and not v[1].endswith('@old'):
            # an argument of an earlier test kept in the object: not known to be (or not to be)
            # the object a later test passes
            st[k] = ('param', v[1] + '@old')
    return st


TR_CAP = 3          # the symbolic testsRun counter saturates: (>=3) is all a rule needs to know
STATE_CAP = 20000   # per configuration; the abstract domain is finite, this only bounds a bug


def clamp(st):
    tr = st.get('tr')
    if tr and any(isinstance(x, int) and x > TR_CAP for x in tr):
        st = dict(st)
        st['tr'] = tuple(min(x, TR_CAP) if isinstance(x, int) else x for x in tr)
    return st


def mark_dirty(st, dst=None):
    """while a test runs, whatever is installed as sys.stdout / sys.stderr may be written to and
    the test changes its own attributes"""
    st = dict(st)
    if dst != 'SKIP0':
        # (a test skipped by decorator is never run: its dictionary stays what it was)
        st['tdict:test'] = 'dirty' if st.get('tdict:test', 'S0') in ('S0', 'dirty') else 'unknown'
    for c in ('sys.stdout', 'sys.stderr'):
        v = st.get(c)
        if v and v[0] == 'obj' and v[1].startswith('new:'):
            st['dirty:' + v[1]] = True
    return st


def explore(ctx, cls, variants=VARIANTS, atoms=ATOMS, fixed=None):
    """Explore every configuration (all valuations of *atoms*, minus *fixed*) and variant."""
    ex = Exploration()
    fixed = fixed or {}
    free = [a for a in atoms if a not in fixed]
    for vals in itertools.product((False, True), repeat=len(free)):
        config = dict(fixed)
        config.update(zip(free, vals))
        for variant in variants:
            if (variant == 'V-debug') != bool(config.get('post_mortem')):
                continue
            _explore_one(ctx, cls, variant, config, ex)
            ex.configs += 1
    return ex


def _explore_one(ctx, cls, variant, config, ex):
    interp = Interp(ctx, cls, config)
    table = protocol(variant)
    by_src = {}
    for s, e, d in table:
        by_src.setdefault(s, []).append((e, d))
    init_ev = []
    inits = initial_state(interp, init_ev)
    ex.init_events.extend(init_ev)
    seen = {}
    q = deque()
    for st in inits:
        key = ('IDLE', freeze(st))
        if key not in seen:
            seen[key] = ()
            q.append((key, st))
    while q:
        (ps, fz), st = q.popleft()
        word = seen[(ps, fz)]
        if ps == 'RUN' and not st.get('tampered') and config.get('buffer'):
            # environment action: the running test re-binds a std stream to a stream of its own
            # (the usual "redirect stdout to a StringIO" idiom) and does not put it back
            for chan in ('sys.stdout', 'sys.stderr'):
                t2 = dict(st)
                t2[chan] = ('obj', 'user:' + chan, frozenset(['write', 'flush', 'getvalue']))
                t2['tampered'] = True
                key = ('RUN', freeze(t2))
                if key not in seen:
                    seen[key] = word + ('<test re-binds %s>' % chan,)
                    q.append((key, t2))
        for ev_name, dst in by_src.get(ps, []):
            meth, args = EVENTS[ev_name]
            outs = interp.call_method(meth, list(args), st)
            for post, ctrl, events, val in outs:
                d2 = dst
                if ctrl is not None and ctrl[1] == 'EndRun' and ps != 'END':
                    d2 = 'END' if ev_name != 'stopTest' else 'STOPPED'
                elif ctrl is not None and ctrl[1] == 'LayerHookError':
                    # user code (a layer's per-test hook) raised: the exception leaves the
                    # callback and, the drivers calling startTest / stopTest outside any handler,
                    # the run; nothing is called on this result object afterwards
                    d2 = 'ABORTED'
                elif ctrl is not None:
                    d2 = 'CRASHED'
                tr = Transition(variant=variant, config=config, word=word + (ev_name,),
                                event=ev_name, src=ps, dst=d2, pre=st, post=post, ctrl=ctrl,
                                events=events, method=meth)
                (ex.tampered if st.get('tampered') else ex.transitions).append(tr)
                if d2 in ('CRASHED', 'STOPPED', 'ABORTED'):
                    continue
                if ev_name in BAD_E and d2 != 'IDLE':
                    # this test has reported a failure or an error (a skip is not one)
                    post = dict(post)
                    post['had_bad'] = True
                nst = normalise_idle(post) if d2 == 'IDLE' else clamp(mark_dirty(post, d2))
                key = (d2, freeze(nst))
                if key not in seen:
                    if len(seen) >= STATE_CAP:
                        from .srcmodel import AnalysisError
                        raise AnalysisError('typestate exploration exceeded %d abstract states '
                                            '(%s, %s): the abstract domain does not converge on '
                                            'this shape of TestResult' % (STATE_CAP, variant, config))
                    seen[key] = word + (ev_name,)
                    q.append((key, nst))
    ex.states += len(seen)
    ex.approx |= interp.approx


def shortest(trs):
    """group violating transitions by construct, keep the shortest word of each"""
    best = {}
    for key, tr, what in trs:
        if key not in best or len(tr.word) < len(best[key][0].word):
            best[key] = (tr, what)
    return best
