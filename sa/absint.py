"""T5a -- a small abstract interpreter for the methods of one class (runner.TestResult).

It does **not** run the program: it walks the AST of each callback method over an abstract
object state (std-stream identity, per-test hook balance, defined attributes, boolean /
None-valued flags, stop flag, thread snapshot freshness, a symbolic testsRun counter) and
returns, for a given abstract pre-state, every abstract post-state together with the
observable events on that path.  Branch conditions over the abstract state and over the
configuration atoms are *evaluated*; everything else is unknown and forks.

Abstract values are small tuples:
  ('none',) ('bool', b) ('opaque',) ('str', s) ('int', ones, counts)   # ones + counts*COUNT
  ('obj', ident, frozenset(method names))   stream / buffer objects with identity
  ('cap', chan)          text captured from the buffer installed as sys.<chan>
  ('fmt',) ('fmeth', frozenset(names))      output formatter / bound formatter method(s)
  ('layers', order) ('layer',)              the per-test layer list / one generic layer
  ('enum', function, epoch)                 thread snapshot taken by <function>, this / older test
  ('param', name) ('tuple', vals) ('bound', method) ('localcls', node) ('self',) ('options',)
"""
import ast

from .callgraph import LAYER_HOOKS
from .srcmodel import Undecided, dotted, norm

NONE = ('none',)
OPAQUE = ('opaque',)
TRUE = ('bool', True)
FALSE = ('bool', False)
SELF = ('self',)
FMT = ('fmt',)
LAYER = ('layer',)

ENUM_FUNCS = ('zope.testrunner.threadsupport.enumerate', 'threading.enumerate')
BASE_RESULT = 'unittest.TestResult'
BASE_CALLBACKS = ('startTest', 'stopTest', 'addSuccess', 'addSkip', 'addSubTest', 'addError',
                  'addFailure', 'addExpectedFailure', 'addUnexpectedSuccess', 'startTestRun',
                  'stopTestRun', '__init__')
# instance attributes unittest.TestResult.__init__ defines (reads of them are always defined)
BASE_ATTRS = ('failures', 'errors', 'testsRun', 'skipped', 'expectedFailures',
              'unexpectedSuccesses', 'shouldStop', 'buffer', 'tb_locals', 'failfast',
              'collectedDurations', '_mirrorOutput', '_stdout_buffer_', '_module_cleanup')


class P:
    """One abstract execution path: object state, locals, events."""
    __slots__ = ('st', 'env', 'ev')

    def __init__(self, st, env, ev=()):
        self.st = st
        self.env = env
        self.ev = ev

    def set(self, key, val):
        st = dict(self.st)
        st[key] = val
        return P(st, self.env, self.ev)

    def drop(self, key):
        st = dict(self.st)
        st.pop(key, None)
        return P(st, self.env, self.ev)

    def bind(self, name, val):
        env = dict(self.env)
        env[name] = val
        return P(self.st, env, self.ev)

    def event(self, *e):
        return P(self.st, self.env, self.ev + (e,))

    def with_env(self, env):
        return P(self.st, env, self.ev)


def freeze(st):
    return tuple(sorted(st.items()))


def truth(v):
    """True / False / None(unknown) for an abstract value."""
    k = v[0]
    if k == 'none':
        return False
    if k == 'bool':
        return v[1]
    if k == 'str':
        return bool(v[1])
    if k == 'int':
        return (v[1] != 0) if v[2] == 0 else None
    if k in ('obj', 'fmt', 'fmeth', 'layer', 'self', 'bound', 'options', 'localcls'):
        return True
    if k == 'tuple':
        return bool(v[1])
    return None


def same(a, b):
    """identity comparison: True / False / None(unknown)"""
    if a[0] == 'opaque' or b[0] == 'opaque':
        return None
    if a[0] == 'param' or b[0] == 'param':
        # the arguments of the callbacks are objects (tests, subtests): never None / a constant;
        # the same parameter name within one test is the same object, 'test' and 'subtest' are
        # different objects; an argument remembered from an earlier test ('@old') is unknown
        if a[0] != b[0]:
            return False if (a[0] in ('none', 'bool', 'int', 'str') or
                             b[0] in ('none', 'bool', 'int', 'str')) else None
        if a[1].endswith('@old') or b[1].endswith('@old'):
            return None
        return a[1] == b[1]
    if a[0] != b[0]:
        return False
    if a[0] == 'none':
        return True
    if a[0] in ('bool', 'int', 'str'):
        return a == b
    if a[0] == 'obj':
        return a[1] == b[1]
    if a[0] in ('fmt', 'self', 'options'):
        return True
    return None


class Interp:
    def __init__(self, ctx, cls, config, order_attr='layers'):
        """ctx: rules.common.Ctx; cls: ClassInfo of the result class; config: atom -> bool"""
        self.ctx = ctx
        self.model = ctx.model
        self.cls = cls
        self.module = cls.module
        self.config = dict(config)
        self.order_attr = order_attr
        self.approx = set()
        self.localclasses = {}
        self.depth = 0
        self.assigned_attrs = self._assigned_attrs()

    # ---------------------------------------------------------------------------------
    def _assigned_attrs(self):
        out = set()
        for c in self.model.mro(self.cls):
            for fi in c.methods.values():
                for n in ast.walk(fi.node):
                    if isinstance(n, ast.Attribute) and isinstance(n.ctx, (ast.Store, ast.Del)) \
                            and isinstance(n.value, ast.Name) and n.value.id == 'self':
                        out.add(n.attr)
        return out

    def method(self, name):
        return self.model.find_method(self.cls, name)

    def canon(self, d):
        return self.model.resolve_dotted(self.module, d) if d else None

    # ---------------------------------------------------------------------------------
    def call_method(self, name, args, st):
        """Interpret method *name* with positional abstract *args* (after self) on abstract
        state *st* (dict).  Returns a list of (post state dict, ctrl, events, value)."""
        fi = self.method(name)
        if fi is None:
            raise Undecided('result class has no method %s' % name)
        outs = self._invoke(fi, list(args), {}, P(dict(st), {}, ()))
        res, seen = [], set()
        for val, p in outs:
            ctrl = None
            if val[0] == '!raise':
                ctrl = val
                val = NONE
            key = (freeze(p.st), ctrl, p.ev, val)
            if key not in seen:
                seen.add(key)
                res.append((p.st, ctrl, p.ev, val))
        return res

    def _invoke(self, fi, args, kwargs, p):
        """-> [(return value or ('!raise', tok, info), P)] ; the caller's env is restored."""
        if self.depth > 6:
            raise Undecided('method inlining too deep at %s' % fi.qualname)
        a = fi.node.args
        names = [x.arg for x in a.posonlyargs + a.args]
        env = {}
        if names and names[0] in ('self', 'cls') and fi.cls is not None:
            env[names[0]] = SELF
            names = names[1:]
        defaults = a.defaults
        for i, nm in enumerate(names):
            if i < len(args):
                env[nm] = args[i]
            elif nm in kwargs:
                env[nm] = kwargs[nm]
            else:
                j = i - (len(names) - len(defaults))
                if 0 <= j < len(defaults) and isinstance(defaults[j], ast.Constant):
                    env[nm] = self._const(defaults[j].value)
                else:
                    env[nm] = OPAQUE
        for kwo, d in zip(a.kwonlyargs, a.kw_defaults):
            env[kwo.arg] = kwargs.get(kwo.arg, self._const(d.value)
                                      if isinstance(d, ast.Constant) else OPAQUE)
        saved = p.env
        self.depth += 1
        try:
            outs = self.exec_block(fi.node.body, p.with_env(env))
        finally:
            self.depth -= 1
        res = []
        for q, ctrl in outs:
            q = q.with_env(saved)
            if ctrl is None:
                res.append((NONE, q))
            elif ctrl[0] == 'return':
                res.append((ctrl[1], q))
            elif ctrl[0] == 'raise':
                res.append((('!raise',) + ctrl[1:], q))
            else:
                raise Undecided('%s escapes %s' % (ctrl[0], fi.qualname))
        return res

    @staticmethod
    def _const(v):
        if v is None:
            return NONE
        if v is True or v is False:
            return ('bool', v)
        if isinstance(v, int):
            return ('int', v, 0)
        if isinstance(v, str):
            return ('str', v)
        return OPAQUE

    # ---------------------------------------------------------------------------------
    # statements:  -> [(P, ctrl)]   ctrl None | ('return', v) | ('raise', tok, info) | ('break',) | ('continue',)
    def exec_block(self, stmts, p):
        cur = [(p, None)]
        for st in stmts:
            nxt = []
            for q, ctrl in cur:
                if ctrl is not None:
                    nxt.append((q, ctrl))
                else:
                    nxt.extend(self.exec_stmt(st, q))
            cur = self._dedupe(nxt)
            if len(cur) > 4000:
                raise Undecided('path explosion in %s' % self.cls.qualname)
        return cur

    @staticmethod
    def _dedupe(outs):
        seen, res = set(), []
        for q, ctrl in outs:
            key = (freeze(q.st), tuple(sorted(q.env.items(), key=lambda kv: kv[0])), q.ev, ctrl)
            try:
                if key in seen:
                    continue
                seen.add(key)
            except TypeError:
                pass
            res.append((q, ctrl))
        return res

    def _ev(self, expr, p, cont):
        """evaluate expr on p; for each normal result call cont(val, p') -> [(P, ctrl)];
        raising results become ('raise', ...) outcomes"""
        out = []
        for v, q in self.eval(expr, p):
            if v[0] == '!raise':
                out.append((q, ('raise',) + v[1:]))
            else:
                out.extend(cont(v, q))
        return out

    def exec_stmt(self, s, p):
        if isinstance(s, ast.Expr):
            return self._ev(s.value, p, lambda v, q: [(q, None)])
        if isinstance(s, ast.Assign):
            def cont(v, q):
                outs = [(q, None)]
                for t in s.targets:
                    nxt = []
                    for q2, c in outs:
                        nxt.extend(self.assign(t, v, q2) if c is None else [(q2, c)])
                    outs = nxt
                return outs
            return self._ev(s.value, p, cont)
        if isinstance(s, ast.AnnAssign):
            if s.value is None:
                return [(p, None)]
            return self._ev(s.value, p, lambda v, q: self.assign(s.target, v, q))
        if isinstance(s, ast.AugAssign):
            load = ast.copy_location(_as_load(s.target), s.target)
            binop = ast.copy_location(ast.BinOp(left=load, op=s.op, right=s.value), s)
            return self._ev(binop, p, lambda v, q: self.assign(s.target, v, q))
        if isinstance(s, ast.Return):
            if s.value is None:
                return [(p, ('return', NONE))]
            return self._ev(s.value, p, lambda v, q: [(q, ('return', v))])
        if isinstance(s, ast.Pass) or isinstance(s, (ast.Import, ast.ImportFrom, ast.Global,
                                                      ast.Nonlocal)):
            return [(p, None)]
        if isinstance(s, ast.Assert):
            return self._ev(s.test, p, lambda v, q: [(q, None)])
        if isinstance(s, ast.Break):
            return [(p, ('break',))]
        if isinstance(s, ast.Continue):
            return [(p, ('continue',))]
        if isinstance(s, ast.If):
            return self._ev(s.test, p, lambda v, q: self._branch(v, q, s.body, s.orelse))
        if isinstance(s, (ast.FunctionDef, ast.AsyncFunctionDef)):
            return [(p.bind(s.name, OPAQUE), None)]
        if isinstance(s, ast.ClassDef):
            meths = frozenset(x.name for x in s.body if isinstance(x, ast.FunctionDef))
            self.localclasses[s.name] = s
            return [(p.bind(s.name, ('localcls', s.name, meths)), None)]
        if isinstance(s, ast.Delete):
            outs = [(p, None)]
            for t in s.targets:
                nxt = []
                for q, c in outs:
                    nxt.extend(self.delete(t, q) if c is None else [(q, c)])
                outs = nxt
            return outs
        if isinstance(s, ast.Raise):
            if s.exc is None:
                tok = p.env.get('__handling', 'Exception')
                return [(p, ('raise', tok, 're-raise'))]
            target = s.exc.func if isinstance(s.exc, ast.Call) else s.exc
            nm = self.ctx.hier.name_of(self.module, target) or 'Exception'
            return [(p, ('raise', nm, norm(s)))]
        if isinstance(s, (ast.For, ast.AsyncFor)):
            return self._for(s, p)
        if isinstance(s, ast.While):
            return self._while(s, p)
        if isinstance(s, (ast.With, ast.AsyncWith)):
            outs = [(p, None)]
            for it in s.items:
                nxt = []
                for q, c in outs:
                    if c is not None:
                        nxt.append((q, c))
                        continue

                    def cont(v, q2, it=it):
                        if it.optional_vars is not None:
                            return self.assign(it.optional_vars, OPAQUE, q2)
                        return [(q2, None)]
                    nxt.extend(self._ev(it.context_expr, q, cont))
                outs = nxt
            res = []
            for q, c in outs:
                res.extend(self.exec_block(s.body, q) if c is None else [(q, c)])
            return res
        if isinstance(s, ast.Try):
            return self._try(s, p)
        raise Undecided('statement %s not modelled (line %s)' % (type(s).__name__, s.lineno))

    def _branch(self, v, q, body, orelse):
        t = truth(v)
        out = []
        if t is not False:
            out.extend(self.exec_block(body, q))
        if t is not True:
            out.extend(self.exec_block(orelse, q) if orelse else [(q, None)])
        return out

    def _loop_body(self, body, p):
        """run a loop body once; break/continue are absorbed"""
        res = []
        for q, c in self.exec_block(body, p):
            if c is not None and c[0] in ('break', 'continue'):
                res.append((q, None, c[0]))
            else:
                res.append((q, c, None))
        return res

    def _for(self, s, p):
        def cont(v, q):
            out = []
            if v[0] == 'layers':
                # one generic layer of the stack that defines the hooks
                q2 = q.bind('__order', ('str', v[1]))
                for q3, c in self.assign(s.target, LAYER, q2):
                    for q4, c4, how in self._loop_body(s.body, q3):
                        q4 = q4.bind('__order', q.env.get('__order', ('str', '?')))
                        if c4 is None and how == 'break':
                            q4 = q4.event('hook-loop-break', norm(s.iter))
                        out.append((q4, c4))
                if s.orelse:
                    out = [x for q5, c5 in out
                           for x in (self.exec_block(s.orelse, q5) if c5 is None else [(q5, c5)])]
                return out
            if v[0] == 'enum':
                q = q.event('enum-iter', v[1])
            # generic loop: zero or one iteration
            self.approx.add('for %s in %s: 0 or 1 iterations' % (norm(s.target), norm(s.iter)))
            zero = self.exec_block(s.orelse, q) if s.orelse else [(q, None)]
            out.extend(zero)
            elem = OPAQUE
            for q3, c in self.assign(s.target, elem, q):
                for q4, c4, how in self._loop_body(s.body, q3):
                    if c4 is None and how != 'break' and s.orelse:
                        out.extend(self.exec_block(s.orelse, q4))
                    else:
                        out.append((q4, c4))
            return out
        return self._ev(s.iter, p, cont)

    def _while(self, s, p):
        self.approx.add('while %s: at most one iteration' % norm(s.test))

        def cont(v, q):
            t = truth(v)
            out = []
            if t is not True:
                out.extend(self.exec_block(s.orelse, q) if s.orelse else [(q, None)])
            if t is not False:
                for q4, c4, how in self._loop_body(s.body, q):
                    out.append((q4, c4))
            return out
        return self._ev(s.test, p, cont)

    def _handler_names(self, h):
        if h.type is None:
            return None
        elts = h.type.elts if isinstance(h.type, ast.Tuple) else [h.type]
        return [self.ctx.hier.name_of(self.module, e) for e in elts]

    def _try(self, s, p):
        hier = self.ctx.hier
        body = self.exec_block(s.body, p)
        mid = []
        for q, c in body:
            if c is None:
                mid.extend(self.exec_block(s.orelse, q) if s.orelse else [(q, None)])
            elif c[0] == 'raise':
                handled = False
                for h in s.handlers:
                    names = self._handler_names(h)
                    if c[1] in hier.parent:
                        may, must, _ = hier.catches(names, ('exact', c[1]))
                    else:
                        may = must = names is None or any(
                            n in ('Exception', 'BaseException') for n in names)
                    if must or may:
                        q2 = q.bind('__handling', c[1])
                        if h.name:
                            q2 = q2.bind(h.name, OPAQUE)
                        for q3, c3 in self.exec_block(h.body, q2):
                            mid.append((q3.bind('__handling', q.env.get('__handling', 'Exception')), c3))
                        handled = True
                        break
                if not handled:
                    mid.append((q, c))
            else:
                mid.append((q, c))
        if not s.finalbody:
            return mid
        out = []
        for q, c in mid:
            for q2, c2 in self.exec_block(s.finalbody, q):
                out.append((q2, c2 if c2 is not None else c))
        return out

    # ---------------------------------------------------------------------------------
    def assign(self, t, v, p):
        if isinstance(t, ast.Name):
            return [(p.bind(t.id, v), None)]
        if isinstance(t, (ast.Tuple, ast.List)):
            if v[0] == 'tuple' and len(v[1]) == len(t.elts):
                vals = v[1]
            else:
                vals = [OPAQUE] * len(t.elts)
            outs = [(p, None)]
            for e, x in zip(t.elts, vals):
                nxt = []
                for q, c in outs:
                    nxt.extend(self.assign(e, x, q) if c is None else [(q, c)])
                outs = nxt
            return outs
        if isinstance(t, ast.Attribute):
            d = dotted(t)
            if isinstance(t.value, ast.Name) and p.env.get(t.value.id) == SELF:
                return [(self.store_attr(t.attr, v, p), None)]
            c = self.canon(d)
            if c in ('sys.stdout', 'sys.stderr'):
                stale = v[0] == 'obj' and bool(p.st.get('dirty:' + v[1]))
                q = p.set(c, v).event('stream-store', c, v, 'stale' if stale else '')
                return [(q, None)]

            def cont(rv, q):
                return [(q, None)]
            return self._ev(t.value, p, cont)
        if isinstance(t, ast.Subscript):
            return self._ev(t.value, p, lambda rv, q: self._ev(t.slice, q, lambda sv, q2: [(q2, None)]))
        if isinstance(t, ast.Starred):
            return self.assign(t.value, OPAQUE, p)
        raise Undecided('assignment target %s' % type(t).__name__)

    def _guarded(self, node):
        return ''

    def store_attr(self, name, v, p):
        if v[0] == 'obj' and v[1] == 'new':
            v = ('obj', 'new:' + name) + tuple(v[2:])
        if v[0] in ('enum', 'enumf'):
            v = (v[0], v[1], 'this')
        if name == 'testsRun':
            if v[0] == 'int':
                return p.set('tr', (v[1], v[2]))
            return p.set('tr', ('?', '?')).event('testsRun-opaque', name)
        if name == 'shouldStop':
            t = truth(v)
            return p.set('stop', bool(t)) if t is not None else p
        if name == self.order_attr:
            v = ('layers', 'fwd')
        return p.set('attr:' + name, v)

    def delete(self, t, p):
        if isinstance(t, ast.Attribute) and isinstance(t.value, ast.Name) and \
                p.env.get(t.value.id) == SELF:
            key = 'attr:' + t.attr
            if key not in p.st:
                return [(p, ('raise', 'AttributeError',
                             'del self.%s while the attribute is not defined' % t.attr))]
            return [(p.drop(key), None)]
        if isinstance(t, ast.Name):
            env = dict(p.env)
            env.pop(t.id, None)
            return [(p.with_env(env), None)]
        if isinstance(t, ast.Subscript):
            return self._ev(t.value, p, lambda v, q: [(q, None)])
        return [(p, None)]

    # ---------------------------------------------------------------------------------
    # expressions: -> [(value, P)]
    def eval(self, e, p):
        if isinstance(e, ast.Constant):
            return [(self._const(e.value), p)]
        if isinstance(e, ast.Name):
            if e.id in p.env:
                return [(p.env[e.id], p)]
            if e.id in ('True', 'False', 'None'):
                return [(self._const(eval(e.id)), p)]
            # a capture-stream class defined at module level (instead of inside the method that
            # creates the stream) is the same kind of object
            mod = getattr(self.cls, 'module', None)
            tree = getattr(mod, 'tree', None)
            if tree is not None:
                for st in tree.body:
                    if isinstance(st, ast.ClassDef) and st.name == e.id and any(
                            isinstance(x, ast.FunctionDef) and x.name == 'getvalue' for x in st.body):
                        meths = frozenset(x.name for x in st.body if isinstance(x, ast.FunctionDef))
                        self.localclasses[st.name] = st
                        return [(('localcls', st.name, meths), p)]
            return [(OPAQUE, p)]
        if isinstance(e, ast.Attribute):
            return self._attr(e, p)
        if isinstance(e, ast.Call):
            return self._call(e, p)
        if isinstance(e, ast.BoolOp):
            return self._boolop(e, e.values, p)
        if isinstance(e, ast.UnaryOp):
            def f(v, q):
                if isinstance(e.op, ast.Not):
                    t = truth(v)
                    return OPAQUE if t is None else ('bool', not t)
                if isinstance(e.op, ast.USub) and v[0] == 'int':
                    return ('int', -v[1], -v[2])
                return OPAQUE
            return self._map(e.operand, p, f)
        if isinstance(e, ast.Compare):
            return self._compare(e, p)
        if isinstance(e, ast.IfExp):
            out = []
            for tv, q in self.eval(e.test, p):
                if tv[0] == '!raise':
                    out.append((tv, q))
                    continue
                t = truth(tv)
                if t is True:
                    out.extend(self.eval(e.body, q))
                elif t is False:
                    out.extend(self.eval(e.orelse, q))
                else:
                    a = self.eval(e.body, q)
                    b = self.eval(e.orelse, q)
                    if len(a) == 1 and len(b) == 1 and a[0][0][0] == 'fmeth' and \
                            b[0][0][0] == 'fmeth' and a[0][1].ev == b[0][1].ev:
                        out.append((('fmeth', a[0][0][1] | b[0][0][1]), a[0][1]))
                    else:
                        out.extend(a + b)
            return out
        if isinstance(e, ast.BinOp):
            def g(l, q):
                def h(r, q2):
                    li = ('int', 0, 1) if l == ('count',) else l
                    ri = ('int', 0, 1) if r == ('count',) else r
                    if li[0] == 'int' and ri[0] == 'int' and '?' not in li and '?' not in ri:
                        if isinstance(e.op, ast.Add):
                            return ('int', li[1] + ri[1], li[2] + ri[2])
                        if isinstance(e.op, ast.Sub):
                            return ('int', li[1] - ri[1], li[2] - ri[2])
                    if isinstance(e.op, ast.Add) and l[0] == 'tuple' and r[0] == 'tuple':
                        return ('tuple', l[1] + r[1])
                    return OPAQUE
                return self._map(e.right, q, h)
            out = []
            for l, q in self.eval(e.left, p):
                out.extend([(l, q)] if l[0] == '!raise' else g(l, q))
            return out
        if isinstance(e, (ast.Tuple, ast.List)):
            outs = [((), p)]
            for el in e.elts:
                nxt = []
                for acc, q in outs:
                    if acc and acc[0] == '!raise':
                        nxt.append((acc, q))
                        continue
                    for v, q2 in self.eval(el.value if isinstance(el, ast.Starred) else el, q):
                        nxt.append((v if v[0] == '!raise' else acc + (v,), q2))
                outs = nxt
            return [(v if (v and v[0] == '!raise') else
                     (('tuple', v) if isinstance(e, ast.Tuple) else OPAQUE), q) for v, q in outs]
        if isinstance(e, ast.Subscript):
            def f(v, q):
                if v[0] == 'layers' and _is_reverse_slice(e.slice):
                    return ('layers', 'rev' if v[1] == 'fwd' else 'fwd')
                if v[0] == 'layers' and isinstance(e.slice, ast.Slice) and e.slice.lower is None \
                        and e.slice.upper is None and e.slice.step is None:
                    return v
                if v[0] == 'tuple' and isinstance(e.slice, ast.Constant) and \
                        isinstance(e.slice.value, int) and -len(v[1]) <= e.slice.value < len(v[1]):
                    return v[1][e.slice.value]
                if v[0] == 'layers':
                    return ('layers', '?')
                return OPAQUE
            return self._map(e.value, p, f, then=[e.slice] if not isinstance(e.slice, ast.Slice)
                             else [x for x in (e.slice.lower, e.slice.upper, e.slice.step) if x])
        if isinstance(e, (ast.ListComp, ast.SetComp, ast.GeneratorExp, ast.DictComp)):
            return self._comp(e, p)
        if isinstance(e, ast.JoinedStr):
            outs = [(OPAQUE, p)]
            for v in e.values:
                if isinstance(v, ast.FormattedValue):
                    nxt = []
                    for acc, q in outs:
                        if acc[0] == '!raise':
                            nxt.append((acc, q))
                        else:
                            for x, q2 in self.eval(v.value, q):
                                nxt.append((x if x[0] == '!raise' else OPAQUE, q2))
                    outs = nxt
            return outs
        if isinstance(e, (ast.Dict, ast.Set)):
            parts = [x for x in (list(getattr(e, 'keys', []) or []) + list(getattr(e, 'values', []) or [])
                                 + list(getattr(e, 'elts', []) or [])) if x is not None]
            return self._seq_opaque(parts, p)
        if isinstance(e, ast.Lambda):
            return [(OPAQUE, p)]
        if isinstance(e, ast.Starred):
            return self._map(e.value, p, lambda v, q: OPAQUE)
        if isinstance(e, ast.NamedExpr):
            out = []
            for v, q in self.eval(e.value, p):
                out.append((v, q if v[0] == '!raise' else q.bind(e.target.id, v)))
            return out
        if isinstance(e, (ast.Await, ast.Yield, ast.YieldFrom)):
            raise Undecided('generator/async construct in result class')
        if isinstance(e, ast.Slice):
            return self._seq_opaque([x for x in (e.lower, e.upper, e.step) if x], p)
        raise Undecided('expression %s not modelled' % type(e).__name__)

    def _seq_opaque(self, exprs, p):
        outs = [(OPAQUE, p)]
        for x in exprs:
            nxt = []
            for acc, q in outs:
                if acc[0] == '!raise':
                    nxt.append((acc, q))
                else:
                    for v, q2 in self.eval(x, q):
                        nxt.append((v if v[0] == '!raise' else OPAQUE, q2))
            outs = nxt
        return outs

    def _map(self, expr, p, f, then=()):
        out = []
        for v, q in self.eval(expr, p):
            if v[0] == '!raise':
                out.append((v, q))
                continue
            qs = [(OPAQUE, q)]
            for t in then:
                nxt = []
                for acc, q2 in qs:
                    if acc[0] == '!raise':
                        nxt.append((acc, q2))
                    else:
                        nxt.extend(self.eval(t, q2))
                qs = nxt
            for acc, q2 in qs:
                out.append((acc, q2) if acc[0] == '!raise' else (f(v, q2), q2))
        return out

    def _comp(self, e, p):
        # evaluate the first iterable in the enclosing scope, the element once with opaque targets
        gen = e.generators[0]
        out = []
        for v, q in self.eval(gen.iter, p):
            if v[0] == '!raise':
                out.append((v, q))
                continue
            if v[0] == 'enum':
                q = q.event('enum-iter', v[1])
            saved = q.env
            q2 = q
            for g in e.generators:
                for nm in ast.walk(g.target):
                    if isinstance(nm, ast.Name):
                        q2 = q2.bind(nm.id, LAYER if v[0] == 'layers' else OPAQUE)
            parts = [c for g in e.generators for c in g.ifs] + \
                    [g.iter for g in e.generators[1:]] + \
                    ([e.key, e.value] if isinstance(e, ast.DictComp) else [e.elt])
            for acc, q3 in self._seq_opaque(parts, q2):
                if v[0] == 'enum' and acc and acc[0] != '!raise' and len(e.generators) == 1 and \
                        isinstance(e, (ast.ListComp, ast.SetComp, ast.GeneratorExp)):
                    # a selection from the enumeration of the running threads: if it is kept as the
                    # per-test snapshot, the snapshot is not the complete enumeration
                    g0 = e.generators[0]
                    plain = not g0.ifs and isinstance(e.elt, ast.Name) and isinstance(g0.target, ast.Name) \
                        and e.elt.id == g0.target.id
                    acc = ('enum', v[1], v[2]) if plain else (
                        'enumf', '%s filtered by [%s]' % (v[1], ', '.join(
                            ast.unparse(c)[:50] for c in g0.ifs) or ast.unparse(e.elt)[:50]), v[2])
                out.append((acc, q3.with_env(saved)))
        return out

    def _boolop(self, e, values, p):
        is_and = isinstance(e.op, ast.And)
        out = []
        work = [(None, p, 0)]
        while work:
            last, q, i = work.pop()
            if i == len(values):
                out.append((last, q))
                continue
            for v, q2 in self.eval(values[i], q):
                if v[0] == '!raise':
                    out.append((v, q2))
                    continue
                t = truth(v)
                if i == len(values) - 1:
                    out.append((v if last is None or last != OPAQUE or t is not None and
                                ((t is False) if is_and else (t is True)) else OPAQUE, q2))
                elif t is None:
                    # unknown: it may short-circuit here (value unknown) or continue
                    out.append((OPAQUE, q2))
                    work.append((OPAQUE, q2, i + 1))
                elif t is (not is_and):
                    out.append((v, q2))         # short circuit
                else:
                    work.append((last, q2, i + 1))
        return out

    def _compare(self, e, p):
        if len(e.ops) != 1:
            return self._seq_opaque([e.left] + list(e.comparators), p)
        op = e.ops[0]
        out = []
        for l, q in self.eval(e.left, p):
            if l[0] == '!raise':
                out.append((l, q))
                continue
            for r, q2 in self.eval(e.comparators[0], q):
                if r[0] == '!raise':
                    out.append((r, q2))
                    continue
                res = OPAQUE
                if isinstance(op, (ast.Is, ast.IsNot)):
                    s = same(l, r)
                    if s is not None:
                        res = ('bool', s if isinstance(op, ast.Is) else not s)
                elif isinstance(op, (ast.Eq, ast.NotEq)):
                    s = same(l, r) if l[0] in ('none', 'bool', 'str', 'int') and \
                        r[0] in ('none', 'bool', 'str', 'int') else None
                    if s is not None:
                        res = ('bool', s if isinstance(op, ast.Eq) else not s)
                elif isinstance(op, (ast.In, ast.NotIn)) and r[0] in ('enum', 'enumf'):
                    q2 = q2.event('snapshot-read', r[1], r[2])
                elif l[0] == 'int' and r[0] == 'int' and l[2] == 0 and r[2] == 0 and \
                        isinstance(op, (ast.Lt, ast.LtE, ast.Gt, ast.GtE)):
                    a, b = l[1], r[1]
                    res = ('bool', {ast.Lt: a < b, ast.LtE: a <= b, ast.Gt: a > b,
                                    ast.GtE: a >= b}[type(op)])
                out.append((res, q2))
        return out

    # ---- attribute reads -----------------------------------------------------------------
    def _attr(self, e, p):
        d = dotted(e)
        c = self.canon(d) if d else None
        if c in ('sys.stdout', 'sys.stderr') and (d or '').split('.')[0] not in p.env:
            return [(p.st.get(c, OPAQUE), p)]
        out = []
        for v, q in self.eval(e.value, p):
            if v[0] == '!raise':
                out.append((v, q))
                continue
            out.append(self._getattr(v, e.attr, q, e))
        return out

    def _getattr(self, v, attr, q, node):
        if v == SELF:
            key = 'attr:' + attr
            if key in q.st:
                val = q.st[key]
                if val[0] in ('enum', 'enumf'):
                    q = q.event('snapshot-read', val[1], val[2])
                return val, q
            if attr == 'options':
                return ('options',), q
            if attr == self.order_attr:
                return ('layers', 'fwd'), q
            if attr == 'testsRun':
                tr = q.st.get('tr', (0, 0))
                return (('int', tr[0], tr[1]) if '?' not in tr else OPAQUE), q
            if attr == 'shouldStop':
                return ('bool', bool(q.st.get('stop'))), q
            if self.method(attr) is not None:
                return ('bound', attr), q
            if attr in BASE_ATTRS or attr in BASE_CALLBACKS or attr in ('stop', 'wasSuccessful',
                                                                     'printErrors', 'count'):
                return (('bound', attr) if attr == 'stop' else OPAQUE), q
            if attr in self.assigned_attrs:
                return ('!raise', 'AttributeError',
                        'read of self.%s while the attribute is not defined' % attr), q
            return OPAQUE, q
        if v == ('options',):
            if attr == 'output':
                return FMT, q
            if attr in self.config:
                return ('bool', self.config[attr]), q
            return OPAQUE, q
        if v == FMT:
            return ('fmeth', frozenset([attr])), q
        if v[0] == 'obj':
            if attr in v[2] or attr in ('write', 'flush', 'seek', 'truncate', 'buffer',
                                        'encoding', 'errors', 'close', 'fileno', 'isatty'):
                return ('ometh', v, attr), q
            return ('!raise', 'AttributeError',
                    "%s on an object that has no attribute %r (the stream currently installed "
                    "is %s)" % (norm(node), attr, v[1])), q
        if v == LAYER:
            return ('lmeth', attr), q
        if v[0] == 'param' and attr == '__dict__':
            # the live attribute dictionary of the test object handed to the callback
            return ('tdict', v[1]), q
        if v[0] == 'tdict' and attr in ('copy', 'clear', 'update'):
            return ('dmeth', v[1], attr), q
        if v[0] == 'localcls':
            return OPAQUE, q
        if v[0] == 'none':
            return ('!raise', 'AttributeError', '%s on None' % norm(node)), q
        return OPAQUE, q

    # ---- calls ---------------------------------------------------------------------------
    def _eval_args(self, call, p):
        """-> [(args tuple, kwargs tuple of (name, val), P)] or raise-results"""
        outs = [((), (), p)]
        for a in call.args:
            nxt = []
            for args, kws, q in outs:
                if args and args[-1][0] == '!raise':
                    nxt.append((args, kws, q))
                    continue
                for v, q2 in self.eval(a.value if isinstance(a, ast.Starred) else a, q):
                    if isinstance(a, ast.Starred) and v[0] == 'tuple':
                        nxt.append((args + v[1], kws, q2))
                    else:
                        nxt.append((args + (v,), kws, q2))
            outs = nxt
        for k in call.keywords:
            nxt = []
            for args, kws, q in outs:
                if args and args[-1][0] == '!raise':
                    nxt.append((args, kws, q))
                    continue
                for v, q2 in self.eval(k.value, q):
                    if v[0] == '!raise':
                        nxt.append((args + (v,), kws, q2))
                    else:
                        nxt.append((args, kws + ((k.arg, v),), q2))
            outs = nxt
        return outs

    def _call(self, call, p):
        f = call.func
        d = dotted(f)
        # ---- builtins on the abstract state
        if isinstance(f, ast.Name) and f.id not in p.env:
            if f.id == 'hasattr' and len(call.args) == 2 and isinstance(call.args[1], ast.Constant):
                name = call.args[1].value

                def h(v, q):
                    if v == SELF:
                        return ('bool', ('attr:' + name) in q.st or self.method(name) is not None
                                or name in BASE_ATTRS)
                    if v == LAYER:
                        return TRUE
                    if v[0] == 'obj':
                        return ('bool', name in v[2])
                    if v == FMT:
                        return OPAQUE
                    return OPAQUE
                return self._map(call.args[0], p, h)
            if f.id == 'super' and not call.args:
                return [(('super',), p)]
            if f.id in ('reversed',) and len(call.args) == 1:
                return self._map(call.args[0], p, lambda v, q: ('layers', 'rev' if v[1] == 'fwd'
                                                                  else 'fwd')
                                 if v[0] == 'layers' else OPAQUE)
            if f.id in ('list', 'tuple', 'iter') and len(call.args) == 1:
                return self._map(call.args[0], p, lambda v, q: v if v[0] in ('layers', 'enum')
                                 else OPAQUE)
            if f.id in ('set', 'frozenset') and len(call.args) == 1:
                out = []
                for v, q in self.eval(call.args[0], p):
                    if v[0] == 'enum':
                        # membership in a hashed container goes through __hash__, not only __eq__
                        q = q.event('snapshot-hashed', f.id)
                        out.append((v, q))
                    else:
                        out.append((v if v[0] == '!raise' else OPAQUE, q))
                return out
        # ---- evaluate the callee
        out = []
        if isinstance(f, ast.Attribute):
            recv = self._attr(f, p)
        else:
            recv = self.eval(f, p)
        for fv, q in recv:
            if fv[0] == '!raise':
                out.append((fv, q))
                continue
            for args, kws, q2 in self._eval_args(call, q):
                if args and args[-1][0] == '!raise':
                    out.append((args[-1], q2))
                    continue
                out.extend(self._apply(call, fv, args, dict(kws), q2, d))
        return out

    def _apply(self, call, fv, args, kws, q, d):
        k = fv[0]
        if k == 'bound':
            name = fv[1]
            if name == 'stop':
                return [(NONE, q.set('stop', True).event('stop'))]
            fi = self.method(name)
            if fi is not None:
                return self._invoke(fi, list(args), kws, q)
            return [(OPAQUE, q)]
        if k == 'fmeth':
            tags = tuple(sorted((kk, vv) for kk, vv in kws.items()))
            return [(OPAQUE, q.event('fmt', fv[1], tuple(args), tags))]
        if k == 'lmeth':
            name = fv[1]
            q0 = q
            order = q.env.get('__order', ('str', '?'))[1]
            if name == 'testSetUp':
                bad = q.st.get('hooks') != 'down'
                q = q.event('hook', name, order, 'unbalanced' if bad else 'ok').set('hooks', 'up')
            elif name == 'testTearDown':
                bad = q.st.get('hooks') != 'up'
                q = q.event('hook', name, order, 'unbalanced' if bad else 'ok').set('hooks', 'down')
            elif name in LAYER_HOOKS:
                q = q.event('hook', name, order, 'foreign')
            # a layer hook is user code: it may raise anything; the exception leaves the callback
            # (unless the callback handles it) with the object state as it was before the call
            return [(OPAQUE, q),
                    (('!raise', 'LayerHookError', 'layer.%s() raised' % name),
                     q0.event('hook-raises', name))]
        if k == 'ometh':
            obj, name = fv[1], fv[2]
            if name == 'getvalue':
                chan = None
                for c in ('sys.stdout', 'sys.stderr'):
                    if q.st.get(c) == obj:
                        chan = c
                outs = [(('cap', chan or 'stale:' + obj[1]), q.event('getvalue', obj[1], chan))]
                why = self._method_raises(obj, name)
                if why:
                    outs.append((('!raise',) + why, q))
                return outs
            if name == 'truncate':
                return [(OPAQUE, q.event(name, obj[1]).set('dirty:' + obj[1], False))]
            if name == 'seek':
                return [(OPAQUE, q.event(name, obj[1]))]
            return [(OPAQUE, q)]
        if k == 'dmeth':
            # content of test.__dict__: 'S0' what it was when the test was handed over, 'dirty'
            # after the test ran, 'empty' after clear(); a copy carries the content it was taken of
            name, m = fv[1], fv[2]
            key = 'tdict:' + name
            cur = q.st.get(key, 'S0')
            if m == 'copy':
                return [(('dcopy', name, cur), q)]
            if m == 'clear':
                return [(NONE, q.set(key, 'empty').event('tdict', name, 'clear', 'empty'))]
            a = args[0] if args else OPAQUE
            if a == ('tdict', name):
                new = cur                      # d.update(d): nothing changes
            elif a[0] == 'dcopy' and a[1] == name and cur in ('empty', a[2]):
                new = a[2]
            else:
                new = 'unknown'
            return [(NONE, q.set(key, new).event('tdict', name, 'update', new))]
        if k == 'localcls':
            return [(('obj', 'new', fv[2], fv[1]), q)]
        # ---- by canonical name
        canon = self.canon(d) if d else None
        if d and d.split('.')[0] in q.env and q.env[d.split('.')[0]] != OPAQUE:
            canon = None
        if canon:
            if canon in ENUM_FUNCS:
                return [(('enum', canon, 'this'), q)]
            if canon.startswith(BASE_RESULT + '.'):
                return self._base_call(canon.rsplit('.', 1)[1], q)
            r = self.model.lookup(canon)
            from .srcmodel import FuncInfo
            if isinstance(r, FuncInfo) and self.ctx.func_noreturn(r):
                return [(('!raise', self._noreturn_token(r), 'call of %s' % canon), q)]
        if isinstance(call.func, ast.Attribute):
            # super().m(...)  /  test.countTestCases()
            base = call.func.value
            if isinstance(base, ast.Call) and dotted(base.func) == 'super':
                return self._base_call(call.func.attr, q)
            if call.func.attr == 'countTestCases':
                return [(('count',), q)]
        return [(OPAQUE, q)]

    TOLERANT = ('replace', 'ignore', 'backslashreplace', 'surrogateescape', 'xmlcharrefreplace',
                'namereplace', 'surrogatepass')

    def _method_raises(self, obj, name):
        """catalogued raise source inside a method of a locally defined class: a
        ``bytes.decode`` whose error handler is not a tolerant constant raises
        UnicodeDecodeError on arbitrary bytes (what a test wrote to the stream's buffer)"""
        cls = self.localclasses.get(obj[3]) if len(obj) > 3 else None
        if cls is None:
            return None
        for f in cls.body:
            if isinstance(f, ast.FunctionDef) and f.name == name:
                for c in ast.walk(f):
                    if isinstance(c, ast.Call) and isinstance(c.func, ast.Attribute) and \
                            c.func.attr == 'decode':
                        err = None
                        if len(c.args) > 1:
                            err = c.args[1]
                        for k in c.keywords:
                            if k.arg == 'errors':
                                err = k.value
                        if not (isinstance(err, ast.Constant) and err.value in self.TOLERANT):
                            return ('UnicodeDecodeError', '%s.%s(): %s decodes the captured bytes '
                                    'with a strict (or unknown) error handler; a test that writes '
                                    'undecodable bytes to sys.stdout.buffer makes it raise'
                                    % (cls.name, name, norm(c)))
        return None

    def _base_call(self, name, q):
        q = q.event('base', name)
        if name == 'startTest':
            tr = q.st.get('tr', (0, 0))
            if '?' not in tr:
                q = q.set('tr', (tr[0] + 1, tr[1]))
        elif name == 'stop':
            q = q.set('stop', True).event('stop')
        return [(NONE, q)]

    def _noreturn_token(self, fi):
        toks = []
        for n in ast.walk(fi.node):
            if isinstance(n, ast.Raise) and n.exc is not None:
                t = n.exc.func if isinstance(n.exc, ast.Call) else n.exc
                nm = self.ctx.hier.name_of(fi.module, t)
                if nm:
                    toks.append(nm)
        return toks[-1] if toks else 'Exception'


def _as_load(t):
    t2 = ast.parse(ast.unparse(t), mode='eval').body
    return t2


def _is_reverse_slice(sl):
    """[::-1] or [-1::-1]"""
    if not isinstance(sl, ast.Slice):
        return False
    st = sl.step
    if not (isinstance(st, ast.UnaryOp) and isinstance(st.op, ast.USub) and
            isinstance(st.operand, ast.Constant) and st.operand.value == 1):
        return False
    if sl.upper is not None:
        return False
    if sl.lower is None:
        return True
    lo = sl.lower
    return isinstance(lo, ast.UnaryOp) and isinstance(lo.op, ast.USub) and \
        isinstance(lo.operand, ast.Constant) and lo.operand.value == 1
