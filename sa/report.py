"""Evidence, known findings, exit codes.

Exit codes: 0 every obligation discharged (known findings are printed) / 1 VIOLATION /
2 ANALYSIS-ERROR (anchor vanished, undecided shape, instance floor not met, internal error).
"""
import json
import os
import sys
import time

VERIF = os.path.dirname(os.path.dirname(os.path.abspath(__file__)))
EVIDENCE_DIR = os.path.join(VERIF, 'evidence')
REPLAY_DIR = os.path.join(EVIDENCE_DIR, 'replay')
KNOWN = os.path.join(VERIF, 'known_findings.json')


def load_known():
    try:
        with open(KNOWN) as f:
            return json.load(f)
    except FileNotFoundError:
        return {'open': [], 'fixed': []}


class Report:
    def __init__(self, prop, tier='quick', seed=0, write=True):
        self.prop = prop
        self.tier = tier
        self.seed = seed
        self.write = write
        self.t0 = time.time()
        self.obligations = []      # dicts: rule, construct, verdict, detail
        self.undecided = []
        self.floors = []
        self.samples = []
        self.units = {}
        self.assumptions = []
        self.rules = {}            # rule id -> text
        self.extra = {}
        self.known = load_known()
        self.errors = []
        self.states = 0
        self.transitions = 0
        self.explanation = ''
        self.selftest = None

    # ---- recording -------------------------------------------------------------------
    def rule(self, rid, text):
        self.rules[rid] = text

    def ok(self, rule, construct, detail=''):
        self.obligations.append({'rule': rule, 'construct': construct, 'verdict': 'discharged',
                                 'detail': detail})

    def bad(self, rule, construct, what, key, where='', path=None, func=''):
        """A violated obligation.  *key* identifies the construct for known findings
        (normalised statement text or protocol word -- never a line number)."""
        self.obligations.append({'rule': rule, 'construct': construct, 'verdict': 'violated',
                                 'detail': what, 'key': key, 'where': where,
                                 'path': path or [], 'function': func})

    def check(self, cond, rule, construct, what, key=None, where='', path=None, func='',
              detail=''):
        if cond:
            self.ok(rule, construct, detail)
        else:
            self.bad(rule, construct, what, key or construct, where, path, func)
        return cond

    def undecide(self, rule, construct, why):
        self.undecided.append({'rule': rule, 'construct': construct, 'why': why})

    def floor(self, rule, found, minimum, what='instances'):
        self.floors.append({'rule': rule, 'found': found, 'floor': minimum, 'what': what})

    def sample(self, s):
        if len(self.samples) < 40:
            self.samples.append(s)

    def assume(self, text):
        if text not in self.assumptions:
            self.assumptions.append(text)

    # ---- finishing -------------------------------------------------------------------
    def _is_known(self, ob):
        for k in self.known.get('open', []):
            if k['property'] == self.prop and k['rule'] == ob['rule'] and \
                    k.get('function', '') == ob.get('function', '') and k['key'] == ob['key']:
                return k
        return None

    def finish(self, analysis_error=None):
        wall = time.time() - self.t0
        viol, known = [], []
        for ob in self.obligations:
            if ob['verdict'] == 'violated':
                k = self._is_known(ob)
                if k:
                    ob['verdict'] = 'known-finding'
                    known.append((ob, k))
                else:
                    viol.append(ob)
        floor_fail = [f for f in self.floors if f['found'] < f['floor']]
        code = 0
        lines = []
        for ob, k in known:
            lines.append('KNOWN-FINDING: property=%s %s %s :: %s' % (
                self.prop, ob['rule'], ob['construct'], k.get('what', ob['detail'])))
        if self.write:
            os.makedirs(REPLAY_DIR, exist_ok=True)
            for fn in os.listdir(REPLAY_DIR):
                if fn.startswith(self.prop + '.'):
                    os.unlink(os.path.join(REPLAY_DIR, fn))
        for i, ob in enumerate(viol, 1):
            rp = os.path.join(REPLAY_DIR, '%s.%s.%d.json' % (self.prop, ob['rule'], i))
            if self.write:
                with open(rp, 'w') as f:
                    json.dump({'property': self.prop, 'rule': ob['rule'],
                               'rule_text': self.rules.get(ob['rule'], ''),
                               'construct': ob['construct'], 'function': ob.get('function', ''),
                               'where': ob.get('where', ''), 'what': ob['detail'],
                               'key': ob.get('key'), 'path': ob.get('path', [])}, f, indent=1)
            lines.append('  %s %s at %s: %s' % (ob['rule'], ob['construct'], ob.get('where', ''),
                                                ob['detail']))
            for p in ob.get('path', [])[:16]:
                lines.append('      | %s' % p)
            lines.append('VIOLATION property=%s replay=%s' % (self.prop, rp))
            code = 1
        if analysis_error is not None:
            lines.append('ANALYSIS-ERROR property=%s %s' % (self.prop, analysis_error))
            code = 2 if code == 0 else code
        for u in self.undecided:
            lines.append('ANALYSIS-ERROR property=%s undecided %s %s: %s' % (
                self.prop, u['rule'], u['construct'], u['why']))
            code = 2 if code == 0 else code
        for f in floor_fail:
            lines.append('ANALYSIS-ERROR property=%s floor %s: found %d %s, expected >= %d' % (
                self.prop, f['rule'], f['found'], f['what'], f['floor']))
            code = 2 if code == 0 else code
        if self.selftest and self.selftest.get('failed'):
            for x in self.selftest['failed']:
                lines.append('ANALYSIS-ERROR property=%s selftest %s' % (self.prop, x))
            code = 2 if code == 0 else code
        n_ob = len(self.obligations)
        n_dis = sum(1 for o in self.obligations if o['verdict'] == 'discharged')
        distinct = len({(o['rule'], o['construct']) for o in self.obligations})
        ev = {
            'property_id': self.prop,
            'tier': self.tier,
            'seed': self.seed,
            'level': 'other',
            'coverage': {
                'explanation': self.explanation or
                ('static analysis of /repo working tree: %d rule instances over %s'
                 % (n_ob, json.dumps(self.units))),
                'obligations': n_ob,
                'discharged': n_dis,
                'known_findings': len(known),
                'evaluations': max(n_ob, 1),
                'distinct_nontrivial': distinct,
                'rule': 'one evaluation per (rule, construct) instance found in the current '
                        'source; distinct = distinct (rule, construct) pairs; every instance is '
                        'non-trivial in that it is a concrete site/path/protocol word of the '
                        'analysed code',
                'samples': self.samples or [o['rule'] + ' ' + o['construct']
                                            for o in self.obligations[:10]] or ['(none)'],
                'rules': self.rules,
                'instances': self.obligations,
                'floors': self.floors,
                'units': self.units,
                'undecided': self.undecided,
                'exhaustive': True,
            },
            'assumptions': self.assumptions,
            'wall_s': round(wall, 3),
            'violations': len(viol),
        }
        if self.states:
            ev['coverage']['states'] = self.states
            ev['coverage']['transitions'] = self.transitions
        if self.selftest is not None:
            ev['coverage']['selftest'] = self.selftest
        if analysis_error is not None:
            ev['coverage']['analysis_error'] = str(analysis_error)
        ev['coverage'].update(self.extra)
        if self.write:
            os.makedirs(EVIDENCE_DIR, exist_ok=True)
            _validate(ev)
            with open(os.path.join(EVIDENCE_DIR, self.prop + '.json'), 'w') as f:
                json.dump(ev, f, indent=1, sort_keys=True, default=str)
        lines.append('%s %s: %d obligations, %d discharged, %d known findings, %d violations, '
                     '%d undecided  (%.2fs)' % (self.prop, self.tier, n_ob, n_dis, len(known),
                                                len(viol), len(self.undecided), wall))
        return code, lines, ev


def _validate(ev):
    try:
        import jsonschema
    except ImportError:
        return
    p = '/root/.vp/EVIDENCE.schema.json'
    if not os.path.exists(p):
        p = os.path.join(VERIF, 'models', 'EVIDENCE.schema.json')
        if not os.path.exists(p):
            return
    with open(p) as f:
        schema = json.load(f)
    jsonschema.validate(json.loads(json.dumps(ev, default=str)), schema)
