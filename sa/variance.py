"""T6/T7 -- guard literals and polarity.

``path_literals(node, stop)``: the conjunction of branch literals under which *node* executes
(structured nesting: enclosing ``if`` tests with the branch taken; ``not`` pushed inwards; ``and``
split; an ``or`` stays one opaque literal).  Each literal is (expression, positive?).
"""
import ast


def boolify(e):
    """a conditional expression in boolean context as and/or/not (truth value preserved):
    ``False if c else x`` = ``not c and x``, ``True if c else x`` = ``c or x``,
    ``x if c else False`` = ``c and x``, ``x if c else True`` = ``not c or x``,
    otherwise ``(c and a) or (not c and b)``"""
    if not isinstance(e, ast.IfExp):
        return e

    def const(x):
        return x.value if isinstance(x, ast.Constant) and isinstance(x.value, bool) else None

    def neg(x):
        return ast.copy_location(ast.UnaryOp(op=ast.Not(), operand=x), x)

    def both(op, a, b):
        return ast.copy_location(ast.BoolOp(op=op, values=[a, b]), e)
    c, a, b = e.test, boolify(e.body), boolify(e.orelse)
    if const(a) is False:
        r = both(ast.And(), neg(c), b)
    elif const(a) is True:
        r = both(ast.Or(), c, b)
    elif const(b) is False:
        r = both(ast.And(), c, a)
    elif const(b) is True:
        r = both(ast.Or(), neg(c), a)
    else:
        r = both(ast.Or(), both(ast.And(), c, a), both(ast.And(), neg(c), b))
    for p in ast.walk(r):
        for ch in ast.iter_child_nodes(p):
            if not hasattr(ch, '_parent') or p is r or isinstance(p, (ast.BoolOp, ast.UnaryOp)) and \
                    not hasattr(p, '_keep'):
                pass
    return r


def split_literals(test, positive=True):
    """literals of a condition that is required to be *positive*"""
    test = boolify(test)
    if isinstance(test, ast.UnaryOp) and isinstance(test.op, ast.Not):
        return split_literals(test.operand, not positive)
    if isinstance(test, ast.BoolOp):
        if isinstance(test.op, ast.And) and positive:
            out = []
            for v in test.values:
                out += split_literals(v, True)
            return out
        if isinstance(test.op, ast.Or) and not positive:
            out = []
            for v in test.values:
                out += split_literals(v, False)
            return out
        return [(test, positive)]
    if isinstance(test, ast.Compare) and len(test.ops) == 1:
        op = test.ops[0]
        flip = {ast.NotIn: ast.In, ast.IsNot: ast.Is, ast.NotEq: ast.Eq}
        if type(op) in flip:
            new = ast.Compare(left=test.left, ops=[flip[type(op)]()], comparators=test.comparators)
            ast.copy_location(new, test)
            return [(new, not positive)]
    return [(test, positive)]


def path_literals(node, stop):
    """branch literals enclosing *node* inside *stop* (a function node), outermost first"""
    chain = []
    child = node
    cur = getattr(node, '_parent', None)
    while cur is not None and cur is not stop:
        if isinstance(cur, ast.If):
            if any(child is x for x in cur.body):
                chain.append((cur.test, True))
            elif any(child is x for x in cur.orelse):
                chain.append((cur.test, False))
        elif isinstance(cur, ast.IfExp):
            if child is cur.body:
                chain.append((cur.test, True))
            elif child is cur.orelse:
                chain.append((cur.test, False))
        elif isinstance(cur, ast.While) and any(child is x for x in cur.body):
            chain.append((cur.test, True))
        elif isinstance(cur, ast.comprehension):
            pass
        child = cur
        cur = getattr(cur, '_parent', None)
    out = []
    for test, pos in reversed(chain):
        out += split_literals(test, pos)
    return out


def polarity(expr, is_var, sign=1):
    """set of signs (+1 / -1 / 0 = unknown context) with which sub-expressions satisfying
    *is_var* occur in the truth value of *expr*"""
    out = set()
    if is_var(expr):
        return {sign}
    if isinstance(expr, ast.UnaryOp) and isinstance(expr.op, ast.Not):
        return polarity(expr.operand, is_var, -sign)
    if isinstance(expr, ast.BoolOp):
        for v in expr.values:
            out |= polarity(v, is_var, sign)
        return out
    if isinstance(expr, ast.Call):
        from .srcmodel import dotted
        d = dotted(expr.func)
        if d in ('any', 'bool') and len(expr.args) == 1:
            a = expr.args[0]
            if isinstance(a, (ast.GeneratorExp, ast.ListComp)):
                out |= polarity(a.elt, is_var, sign)
                for g in a.generators:
                    if is_var(g.iter):
                        out.add(sign)        # more elements can only add matches
                    for c in g.ifs:
                        out |= polarity(c, is_var, sign)
                return out
            return polarity(a, is_var, sign)
        if d == 'all' and len(expr.args) == 1:
            a = expr.args[0]
            if isinstance(a, (ast.GeneratorExp, ast.ListComp)):
                out |= polarity(a.elt, is_var, sign)
                for g in a.generators:
                    if is_var(g.iter):
                        out.add(-sign)       # more elements can only falsify
                return out
    if isinstance(expr, ast.Compare) and len(expr.ops) == 1:
        op = expr.ops[0]
        if isinstance(op, (ast.In, ast.NotIn)):
            s = sign if isinstance(op, ast.In) else -sign
            if is_var(expr.comparators[0]):
                out.add(s)
            if is_var(expr.left):
                out.add(0)
            return out
    for c in ast.iter_child_nodes(expr):
        if isinstance(c, ast.expr):
            if polarity(c, is_var, 0):
                out.add(0)
    return out


UNKNOWN = object()


def eval_guard(expr, env):
    """Evaluate a guard expression over a finite abstract domain: *env* maps the normalised
    text of atoms (``level``, ``options.at_level`` ...) to concrete representatives or to a
    callable(expr) -> value.  Returns a Python value or UNKNOWN.  No program statement is
    executed; only comparison / boolean structure of the guard itself is interpreted."""
    import ast as _ast
    from .srcmodel import norm as _norm
    key = _norm(expr)
    if key in env:
        v = env[key]
        return v(expr) if callable(v) else v
    if isinstance(expr, _ast.Call) and isinstance(expr.func, _ast.Name) and expr.func.id == 'bool' and \
            len(expr.args) == 1 and not expr.keywords:
        v = eval_guard(expr.args[0], env)
        return UNKNOWN if v is UNKNOWN else bool(v)
    if isinstance(expr, _ast.IfExp):
        c = eval_guard(expr.test, env)
        if c is UNKNOWN:
            return UNKNOWN
        return eval_guard(expr.body if c else expr.orelse, env)
    if isinstance(expr, _ast.Constant):
        return expr.value
    if isinstance(expr, _ast.BoolOp):
        vals = [eval_guard(v, env) for v in expr.values]
        if isinstance(expr.op, _ast.And):
            for v in vals:
                if v is not UNKNOWN and not v:
                    return False
            return UNKNOWN if any(v is UNKNOWN for v in vals) else True
        for v in vals:
            if v is not UNKNOWN and v:
                return True
        return UNKNOWN if any(v is UNKNOWN for v in vals) else False
    if isinstance(expr, _ast.UnaryOp) and isinstance(expr.op, _ast.Not):
        v = eval_guard(expr.operand, env)
        return UNKNOWN if v is UNKNOWN else (not v)
    if isinstance(expr, _ast.Compare):
        left = eval_guard(expr.left, env)
        res = True
        for op, c in zip(expr.ops, expr.comparators):
            right = eval_guard(c, env)
            if left is UNKNOWN or right is UNKNOWN:
                return UNKNOWN
            try:
                if isinstance(op, _ast.Eq):
                    r = left == right
                elif isinstance(op, _ast.NotEq):
                    r = left != right
                elif isinstance(op, _ast.Lt):
                    r = left < right
                elif isinstance(op, _ast.LtE):
                    r = left <= right
                elif isinstance(op, _ast.Gt):
                    r = left > right
                elif isinstance(op, _ast.GtE):
                    r = left >= right
                elif isinstance(op, _ast.Is):
                    r = left is right
                elif isinstance(op, _ast.IsNot):
                    r = left is not right
                elif isinstance(op, _ast.In):
                    r = left in right
                elif isinstance(op, _ast.NotIn):
                    r = left not in right
                else:
                    return UNKNOWN
            except TypeError:
                return UNKNOWN
            res = res and r
            left = right
        return res
    return UNKNOWN
