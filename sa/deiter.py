"""T0c -- an explicit stack of iterator frames is turned back into a recursive generator.

"Replace recursion by an explicit stack" is a behaviour-preserving edit of a depth-first tree
walk.  The rules were written against the recursive form, so the edit is undone before the source
model is built.  The pass is AST -> AST, nothing is executed.

The pattern (everything else is refused, the function is then left exactly as it was)::

    def F(..., ROOT, ..., C1, ..., Cn, ...):          # a generator function, no *args / **kwargs
        <prologue>                                    # only ``if P is None: P = <fresh object>``
        S = [(iter((ROOT,)), C1, ..., Cn)]            # ROOT, Ci: parameters of F;  n >= 0
        while S:                                      # no else
            IT, V1, ..., Vn = S[-1]
            NODE = next(IT, SENT)                     # or:  try: NODE = next(IT)
            if NODE is SENT:                          #      except StopIteration:
                S.pop()                               #          S.pop()
                continue                              #          continue
            <rest>     # S only as ``S.append((iter(EXPR), E1, ..., En)); continue``; IT not at all;
                       # NODE, Vi only read; no break / return; nothing follows the loop

(for n == 0 the frames may also be the bare iterators: ``S = [iter([ROOT])]``, ``IT = S[-1]``,
``S.append(iter(EXPR))``) and is rewritten to::

    def F(..., ROOT, ..., C1, ..., Cn, ...):
        <prologue>
        <rest>  with NODE -> ROOT, Vi -> Ci, the `continue`s folded into if / else, and every
                push + continue replaced by
                    for NODE_child in EXPR:
                        yield from F(..., NODE_child, ..., E1, ..., En, p=p, ...)

Why this preserves behaviour
----------------------------
* A frame ``(IT, V1..Vn)`` on S is one suspended ``for child in EXPR`` loop of one activation of
  the recursive F together with the context values that activation hands to its children; S as
  a whole is the chain of activations that are suspended in ``yield from``.
* ``NODE = next(IT, SENT)`` with the not-exhausted outcome is "the for loop of the innermost
  activation produces its next child and calls F on it": the <rest> that follows is the body of
  that new activation, run with ROOT = NODE and Ci = Vi -- exactly the arguments of the call.
  The initial frame ``(iter((ROOT,)), C1..Cn)`` makes the first such call the outermost one with
  F's own arguments.
* ``S.append((iter(EXPR), E1..En)); continue`` is the descent: the activation starts its
  ``for child in EXPR`` loop and, because of the `continue`, does nothing else afterwards -- in
  the recursive form the for statement is in tail position of the activation (that is what the
  if / else folding guarantees), so when the loop is exhausted the activation returns.
* the exhausted outcome, ``S.pop(); continue``, is that return: control is back in the parent's
  for loop, which asks its own iterator for the next child.
* a plain `continue` in <rest> (a leaf has been handled) ends the activation; the next loop
  iteration resumes the parent's for loop, which is what returning to the parent does.
* ``yield`` in <rest> suspends the generator in the same place and order; ``yield from``
  forwards values, ``send()``, ``throw()`` and ``close()`` to the innermost activation, and as no
  push sits inside try / with, an exception leaves all activations just as it leaves the loop.

What has to hold besides the shape (checked, otherwise refused)
----------------------------------------------------------------
* <rest> runs once per activation in the recursive form but shares its locals between all loop
  iterations in the iterative one.  So every local that <rest> assigns must be definitely
  assigned before it is read within one iteration (no value carried from node to node), the
  parameters of F are not assigned in <rest>, and no deferred scope (lambda, def, class, lazily
  consumed generator expression) mentions a per-node local (it would capture a shared cell).
* The prologue is executed by every activation.  Only ``if P is None: P = <never-None fresh
  object>`` for a parameter P other than ROOT / Ci (also as a conditional expression), docstrings,
  ``pass`` and ``global`` are accepted: every other parameter is handed down as ``p=p``, so these
  guards fire in the outermost activation only, as before.
* Nothing may follow the loop: it would run once in the iterative form and once per activation
  in the recursive one.  (This is stricter than "does not use S, IT, NODE".)
* ``break`` / ``return`` would stop the whole walk in the iterative form but only one activation
  in the recursive one.
* ROOT and Ci must not be mentioned in <rest>: there they mean the arguments of the OUTERMOST
  call, after the rewrite they would mean those of the current activation.  (``Vi`` spelled like
  ``Ci`` itself, or NODE like ROOT, is fine.)
* Ei is evaluated once per push but once per child as a call argument.  Names, constants and
  arithmetic over them are left in the call; anything else is evaluated once, in the original
  order, into fresh locals in front of the for loop.
* ``iter`` / ``next`` / ``StopIteration`` and F's own name are not rebound; F is a plain function or
  a method (then ``self.F(...)``; ``@classmethod`` is the only decorator accepted) and is not
  nested in another function.

Accepted differences (what a maintainer accepts with this edit): the recursive form is bounded by
the interpreter's recursion limit and shows nested frames in tracebacks; SENT is assumed never
to be an element of the tree; ``self.F`` is dispatched dynamically; a Name Ei that is unbound
raises only if there is a child.  Initial context values that are not parameters of F (e.g.
``[(iter([root]), 0)]``) would need a new parameter and are refused.
"""
import ast
import builtins
import copy


class _Refuse(Exception):
    pass


_SCOPES = (ast.FunctionDef, ast.AsyncFunctionDef, ast.ClassDef, ast.Lambda)
_EAGER_COMPS = (ast.ListComp, ast.SetComp, ast.DictComp)
_COMPS = _EAGER_COMPS + (ast.GeneratorExp,)
_LOOPS = (ast.For, ast.While, ast.AsyncFor)
# callables that consume their (first) argument before they return
_EAGER_CONSUMERS = {'any', 'all', 'sum', 'min', 'max', 'sorted', 'list', 'tuple', 'set', 'frozenset',
                    'dict', 'len', 'join'}
# constructors that never return None
_FRESH = {'set', 'frozenset', 'dict', 'list', 'tuple', 'object', 'str', 'bytes', 'bytearray', 'int',
          'float', 'OrderedDict', 'defaultdict', 'deque', 'Counter'}


# ---------------------------------------------------------------------------------------------
# names

def _wrap(nodes):
    return nodes if isinstance(nodes, ast.AST) else ast.Module(body=list(nodes), type_ignores=[])


def _identifiers(nodes):
    """every identifier that denotes a variable anywhere below, nested scopes included"""
    out = set()
    for n in ast.walk(_wrap(nodes)):
        if isinstance(n, ast.Name):
            out.add(n.id)
        elif isinstance(n, ast.arg):
            out.add(n.arg)
        elif isinstance(n, (ast.FunctionDef, ast.AsyncFunctionDef, ast.ClassDef)):
            out.add(n.name)
        elif isinstance(n, ast.ExceptHandler) and n.name:
            out.add(n.name)
        elif isinstance(n, ast.alias):
            out.add((n.asname or n.name).split('.')[0])
        elif isinstance(n, (ast.Global, ast.Nonlocal)):
            out.update(n.names)
        elif isinstance(n, (ast.MatchAs, ast.MatchStar)) and n.name:
            out.add(n.name)
        elif isinstance(n, ast.MatchMapping) and n.rest:
            out.add(n.rest)
    return out


def _comp_targets(comp):
    out = set()
    for g in comp.generators:
        for n in ast.walk(g.target):
            if isinstance(n, ast.Name):
                out.add(n.id)
    return out


def _bound(nodes, comp_targets=False):
    """names bound in the scope the statements belong to (nested scopes contribute their own name
    only; comprehension variables only on request; a walrus binds in the enclosing function)"""
    out = set()

    def visit(n, masked):
        if isinstance(n, (ast.FunctionDef, ast.AsyncFunctionDef)):
            out.add(n.name)
            for c in n.decorator_list + n.args.defaults + [d for d in n.args.kw_defaults if d]:
                visit(c, masked)
            return
        if isinstance(n, ast.ClassDef):
            out.add(n.name)
            for c in n.decorator_list + n.bases + [k.value for k in n.keywords]:
                visit(c, masked)
            return
        if isinstance(n, ast.Lambda):
            for c in n.args.defaults + [d for d in n.args.kw_defaults if d]:
                visit(c, masked)
            return
        if isinstance(n, _COMPS):
            own = _comp_targets(n)
            if comp_targets:
                out.update(own)
            for c in ast.iter_child_nodes(n):
                visit(c, masked | own)
            return
        if isinstance(n, ast.Name):
            if isinstance(n.ctx, (ast.Store, ast.Del)) and n.id not in masked:
                out.add(n.id)
            return
        if isinstance(n, ast.ExceptHandler) and n.name:
            out.add(n.name)
        elif isinstance(n, ast.alias):
            if n.name != '*':
                out.add((n.asname or n.name).split('.')[0])
        elif isinstance(n, (ast.MatchAs, ast.MatchStar)) and n.name:
            out.add(n.name)
        elif isinstance(n, ast.MatchMapping) and n.rest:
            out.add(n.rest)
        for c in ast.iter_child_nodes(n):
            visit(c, masked)

    for n in (nodes if isinstance(nodes, list) else [nodes]):
        visit(n, frozenset())
    return out


def _walk_scope(nodes):
    """walk the statements without entering nested function / class / lambda scopes"""
    todo = list(nodes) if isinstance(nodes, list) else [nodes]
    while todo:
        n = todo.pop()
        yield n
        if isinstance(n, _SCOPES):
            continue
        todo.extend(ast.iter_child_nodes(n))


def _fresh(base, taken):
    name, k = base, 1
    while name in taken or hasattr(builtins, name):
        k += 1
        name = '%s%d' % (base, k)
    taken.add(name)
    return name


# ---------------------------------------------------------------------------------------------
# matching of the fixed parts

def _is_name(n, ident=None):
    return isinstance(n, ast.Name) and (ident is None or n.id == ident)


def _iter_arg(e):
    """``iter(X)`` -> X"""
    if (isinstance(e, ast.Call) and _is_name(e.func, 'iter') and len(e.args) == 1 and not e.keywords
            and not isinstance(e.args[0], ast.Starred)):
        return e.args[0]
    return None


def _method_call(st, recv, meth, nargs):
    """``recv.meth(a1..an)`` as a statement -> the arguments"""
    if not isinstance(st, ast.Expr):
        return None
    c = st.value
    if (isinstance(c, ast.Call) and isinstance(c.func, ast.Attribute) and c.func.attr == meth
            and _is_name(c.func.value, recv) and len(c.args) == nargs and not c.keywords
            and not any(isinstance(a, ast.Starred) for a in c.args)):
        return c.args
    return None


def _is_top(e, stack):
    """``stack[-1]``"""
    if not (isinstance(e, ast.Subscript) and _is_name(e.value, stack)):
        return False
    i = e.slice
    if isinstance(i, ast.UnaryOp) and isinstance(i.op, ast.USub):
        return isinstance(i.operand, ast.Constant) and i.operand.value == 1 and type(i.operand.value) is int
    return isinstance(i, ast.Constant) and i.value == -1 and type(i.value) is int


def _is_pop_continue(stmts, stack):
    return (len(stmts) == 2 and _method_call(stmts[0], stack, 'pop', 0) is not None
            and isinstance(stmts[1], ast.Continue))


def _anchor(fn):
    """(index, S, init element, bare) of ``S = [<frame>]`` directly followed by ``while S:`` where the
    frame starts with an iter() call; None if the function does not have this outline at all"""
    body = fn.body
    found = []
    for i in range(len(body) - 1):
        a, w = body[i], body[i + 1]
        if not (isinstance(a, ast.Assign) and len(a.targets) == 1 and _is_name(a.targets[0])):
            continue
        stack = a.targets[0].id
        if not (isinstance(w, ast.While) and _is_name(w.test, stack)):
            continue
        v = a.value
        if not (isinstance(v, ast.List) and len(v.elts) == 1):
            continue
        frame = v.elts[0]
        if isinstance(frame, ast.Tuple) and frame.elts and _iter_arg(frame.elts[0]) is not None:
            found.append((i, stack, frame, False))
        elif _iter_arg(frame) is not None:
            found.append((i, stack, frame, True))
    if len(found) != 1:
        return None
    return found[0]


def _fresh_value(e):
    """an expression that never evaluates to None"""
    if isinstance(e, (ast.List, ast.Dict, ast.Set, ast.Tuple, ast.JoinedStr, ast.Lambda) + _COMPS):
        return True
    if isinstance(e, ast.Constant):
        return e.value is not None
    if isinstance(e, ast.Call):
        f = e.func
        if isinstance(f, ast.Name):
            return f.id in _FRESH
        if isinstance(f, ast.Attribute):
            return f.attr in _FRESH and isinstance(f.value, ast.Name)
    return False


def _none_test(e):
    """``P is None`` -> (P, True);  ``P is not None`` -> (P, False)"""
    if (isinstance(e, ast.Compare) and len(e.ops) == 1 and _is_name(e.left)
            and isinstance(e.comparators[0], ast.Constant) and e.comparators[0].value is None):
        if isinstance(e.ops[0], ast.Is):
            return e.left.id, True
        if isinstance(e.ops[0], ast.IsNot):
            return e.left.id, False
    return None, None


def _check_prologue(stmts, free_params):
    """every activation runs the prologue: it may only default parameters that are handed down
    unchanged.  Returns the names declared global."""
    declared = set()
    for st in stmts:
        if isinstance(st, ast.Pass) or (isinstance(st, ast.Expr) and isinstance(st.value, ast.Constant)):
            continue
        if isinstance(st, ast.Global):
            declared.update(st.names)
            continue
        if isinstance(st, ast.If) and not st.orelse and len(st.body) == 1:
            p, is_none = _none_test(st.test)
            a = st.body[0]
            if (is_none and p in free_params and isinstance(a, ast.Assign) and len(a.targets) == 1
                    and _is_name(a.targets[0], p) and _fresh_value(a.value)):
                continue
        if (isinstance(st, ast.Assign) and len(st.targets) == 1 and _is_name(st.targets[0])
                and st.targets[0].id in free_params and isinstance(st.value, ast.IfExp)):
            p = st.targets[0].id
            q, is_none = _none_test(st.value.test)
            if q == p:
                new, old = (st.value.body, st.value.orelse) if is_none else (st.value.orelse, st.value.body)
                if _is_name(old, p) and _fresh_value(new):
                    continue
        raise _Refuse('prologue statement at line %s would be repeated by every activation'
                      % getattr(st, 'lineno', '?'))
    return declared


# ---------------------------------------------------------------------------------------------
# control flow of the loop body

def _own_jumps(stmts, kinds):
    """the continue / break statements in `stmts` that belong to the loop whose body `stmts` is part
    of (those of nested loops do not, those in the else clause of a nested loop do)"""
    out = []
    for st in stmts:
        if isinstance(st, kinds):
            out.append(st)
        elif isinstance(st, ast.If):
            out += _own_jumps(st.body, kinds) + _own_jumps(st.orelse, kinds)
        elif isinstance(st, _SCOPES):
            continue
        elif isinstance(st, _LOOPS):
            out += _own_jumps(st.orelse, kinds)
        else:
            for field in ('body', 'orelse', 'finalbody'):
                out += _own_jumps(getattr(st, field, []) or [], kinds)
            for h in getattr(st, 'handlers', []) or []:
                out += _own_jumps(h.body, kinds)
            for c in getattr(st, 'cases', []) or []:
                out += _own_jumps(c.body, kinds)
    return out


def _never_falls_through(stmts):
    for st in stmts:
        if isinstance(st, (ast.Continue, ast.Raise)):
            return True
        if isinstance(st, ast.If) and _never_falls_through(st.body) and _never_falls_through(st.orelse):
            return True
    return False


def _negate(test):
    """the test with the opposite truth value (only exact simplifications)"""
    if isinstance(test, ast.UnaryOp) and isinstance(test.op, ast.Not):
        return test.operand
    if isinstance(test, ast.Compare) and len(test.ops) == 1:
        flipped = {ast.Is: ast.IsNot, ast.IsNot: ast.Is, ast.In: ast.NotIn, ast.NotIn: ast.In}.get(type(test.ops[0]))
        if flipped is not None:
            return ast.copy_location(ast.Compare(left=test.left, ops=[flipped()], comparators=test.comparators), test)
    return ast.copy_location(ast.UnaryOp(op=ast.Not(), operand=test), test)


def _mk_if(test, body, orelse):
    if not body and orelse:
        return ast.If(test=_negate(test), body=orelse, orelse=[])
    return ast.If(test=test, body=body or [ast.Pass()], orelse=orelse)


def _lower(stmts):
    """`stmts` is in tail position (what follows it is the end of the activation), so `continue`
    means "fall off the end".  Returns the statements without any `continue` of the loop."""
    out = []
    for i, st in enumerate(stmts):
        if isinstance(st, ast.Continue):
            return out                                  # the rest is dead code
        if not _own_jumps([st], ast.Continue):
            out.append(st)
            if isinstance(st, ast.Raise):
                return out
            continue
        if not isinstance(st, ast.If):
            raise _Refuse('`continue` at line %s is inside a statement that if / else cannot express'
                          % _own_jumps([st], ast.Continue)[0].lineno)
        rest = stmts[i + 1:]
        b_ends, o_ends = _never_falls_through(st.body), _never_falls_through(st.orelse)
        if (b_ends and o_ends) or not rest:
            out.append(_mk_if(st.test, _lower(st.body), _lower(st.orelse)))
        elif b_ends:
            out.append(_mk_if(st.test, _lower(st.body), _lower(st.orelse + rest)))
        elif o_ends:
            out.append(_mk_if(st.test, _lower(st.body + rest), _lower(st.orelse)))
        else:
            raise _Refuse('`continue` below line %s skips statements that follow the if' % st.lineno)
        return out
    return out


def _loop_level_blocks(stmts):
    """the statement lists whose `continue` is expressible: the body and what if / else reaches"""
    yield stmts
    for st in stmts:
        if isinstance(st, ast.If):
            yield from _loop_level_blocks(st.body)
            yield from _loop_level_blocks(st.orelse)


# ---------------------------------------------------------------------------------------------
# definite assignment: no local of <rest> carries a value from one iteration to the next

def _eager_genexps(nodes):
    """generator expressions that are consumed by the call they are the argument of"""
    out = set()
    for n in ast.walk(_wrap(nodes)):
        if isinstance(n, ast.Call) and n.args and isinstance(n.args[0], ast.GeneratorExp):
            f = n.func
            name = f.id if isinstance(f, ast.Name) else f.attr if isinstance(f, ast.Attribute) else None
            if name in _EAGER_CONSUMERS:
                out.add(id(n.args[0]))
    return out


def _loads(e):
    """names read by the expression in the enclosing function's scope (lambdas are not entered:
    they were checked not to mention a per-node local)"""
    out = set()

    def visit(n, masked):
        if isinstance(n, ast.Lambda):
            return
        if isinstance(n, _COMPS):
            masked = masked | _comp_targets(n)
        elif isinstance(n, ast.Name):
            if isinstance(n.ctx, ast.Load) and n.id not in masked:
                out.add(n.id)
            return
        for c in ast.iter_child_nodes(n):
            visit(c, masked)

    visit(e, frozenset())
    return out


def _walrus(e):
    return {n.target.id for n in _walk_scope(e) if isinstance(n, ast.NamedExpr)}


class _DefiniteAssignment:
    def __init__(self, tracked):
        self.tracked = tracked

    def expr(self, e, d):
        if e is None:
            return
        missing = (_loads(e) & self.tracked) - d
        if missing:
            raise _Refuse('local %r (line %s) may carry a value from an earlier iteration'
                          % (sorted(missing)[0], getattr(e, 'lineno', '?')))
        d |= _walrus(e) & self.tracked

    def target(self, t, d):
        if isinstance(t, ast.Name):
            d.add(t.id)
        elif isinstance(t, (ast.Tuple, ast.List)):
            for x in t.elts:
                self.target(x, d)
        elif isinstance(t, ast.Starred):
            self.target(t.value, d)
        else:
            self.expr(t, d)

    @staticmethod
    def merge(states):
        live = [s for s in states if s is not None]
        if not live:
            return None
        out = set(live[0])
        for s in live[1:]:
            out &= s
        return out

    def block(self, stmts, d):
        """d: names definitely assigned on entry (mutated).  Returns the set on normal exit or None
        if the end of the block is not reached."""
        for st in stmts:
            d = self.stmt(st, d)
            if d is None:
                return None
        return d

    def stmt(self, st, d):
        if isinstance(st, ast.Assign):
            self.expr(st.value, d)
            for t in st.targets:
                self.target(t, d)
        elif isinstance(st, ast.AugAssign):
            self.expr(st.value, d)
            if isinstance(st.target, ast.Name):
                if st.target.id in self.tracked and st.target.id not in d:
                    raise _Refuse('local %r (line %s) accumulates over the iterations'
                                  % (st.target.id, st.lineno))
            else:
                self.expr(st.target, d)
        elif isinstance(st, ast.AnnAssign):
            if st.value is not None:
                self.expr(st.value, d)
                self.target(st.target, d)
        elif isinstance(st, (ast.Expr, ast.Assert)):
            for e in ([st.value] if isinstance(st, ast.Expr) else [st.test, st.msg]):
                self.expr(e, d)
        elif isinstance(st, ast.Pass):
            pass
        elif isinstance(st, (ast.Continue, ast.Break)):
            return None
        elif isinstance(st, ast.Raise):
            self.expr(st.exc, d)
            self.expr(st.cause, d)
            return None
        elif isinstance(st, ast.Delete):
            for t in st.targets:
                if isinstance(t, ast.Name):
                    d.discard(t.id)
                else:
                    self.expr(t, d)
        elif isinstance(st, (ast.Import, ast.ImportFrom)):
            d |= _bound(st)
        elif isinstance(st, (ast.FunctionDef, ast.ClassDef)):
            d.add(st.name)                     # does not mention a per-node local (checked)
        elif isinstance(st, ast.If):
            self.expr(st.test, d)
            return self.merge([self.block(st.body, set(d)), self.block(st.orelse, set(d))])
        elif isinstance(st, ast.For):
            self.expr(st.iter, d)
            inner = set(d)
            self.target(st.target, inner)
            self.block(st.body, inner)
            self.block(st.orelse, set(d))
        elif isinstance(st, ast.While):
            self.expr(st.test, d)
            self.block(st.body, set(d))
            self.block(st.orelse, set(d))
        elif isinstance(st, ast.With):
            for item in st.items:
                self.expr(item.context_expr, d)
                if item.optional_vars is not None:
                    self.target(item.optional_vars, d)
            self.block(st.body, set(d))        # the manager may swallow an exception half way
        elif isinstance(st, ast.Try):
            before = set(d)
            b = self.block(st.body, set(d))
            if b is not None:
                b = self.block(st.orelse, b)
            outs = [b]
            for h in st.handlers:
                hd = set(before)
                self.expr(h.type, hd)
                if h.name:
                    hd.add(h.name)
                r = self.block(h.body, hd)
                if r is not None and h.name:
                    r.discard(h.name)
                outs.append(r)
            d = self.merge(outs)
            if st.finalbody:
                self.block(st.finalbody, set(before))
                if d is not None:
                    d = self.block(st.finalbody, d)
            return d
        elif isinstance(st, ast.Match):
            self.expr(st.subject, d)
            for c in st.cases:
                cd = set(d) | _bound(c.pattern)
                self.expr(c.guard, cd)
                self.block(c.body, cd)
        else:
            raise _Refuse('%s at line %s is not handled' % (type(st).__name__, getattr(st, 'lineno', '?')))
        return d


# ---------------------------------------------------------------------------------------------
# the rewrite of one function

class _Rename(ast.NodeTransformer):
    def __init__(self, mapping):
        self.mapping = mapping

    def visit_Name(self, node):
        if node.id in self.mapping:
            return ast.copy_location(ast.Name(id=self.mapping[node.id], ctx=node.ctx), node)
        return node


def _inline_argument(e):
    """cheap to evaluate per child instead of once: names, constants, arithmetic over them"""
    if isinstance(e, (ast.Name, ast.Constant)):
        return True
    if isinstance(e, ast.BinOp):
        return _inline_argument(e.left) and _inline_argument(e.right)
    if isinstance(e, ast.UnaryOp):
        return _inline_argument(e.operand)
    if isinstance(e, ast.BoolOp):
        return all(_inline_argument(v) for v in e.values)
    if isinstance(e, ast.Compare):
        return _inline_argument(e.left) and all(_inline_argument(c) for c in e.comparators)
    if isinstance(e, ast.IfExp):
        return all(_inline_argument(x) for x in (e.test, e.body, e.orelse))
    return False


def _rewrite(fn, in_class, module_bound):
    """the new body of `fn`, or None if fn does not have the outline, or _Refuse"""
    anchor = _anchor(fn)
    if anchor is None:
        return None
    at, S, frame, bare = anchor
    a = fn.args
    if a.vararg or a.kwarg:
        raise _Refuse('*args / **kwargs')
    positional = [x.arg for x in a.posonlyargs + a.args]
    kwonly = [x.arg for x in a.kwonlyargs]
    params = positional + kwonly
    if not any(isinstance(n, (ast.Yield, ast.YieldFrom)) for n in _walk_scope(fn.body)):
        raise _Refuse('not a generator function')
    receiver = None
    decorators = fn.decorator_list
    if in_class:
        if decorators and not (len(decorators) == 1 and _is_name(decorators[0], 'classmethod')):
            raise _Refuse('decorated method')
        if not positional:
            raise _Refuse('method without receiver')
        receiver = positional[0]
    elif decorators:
        raise _Refuse('decorated function')
    fn_bound = _bound(fn.body, comp_targets=True)
    for special in ('iter', 'next', 'StopIteration'):
        if special in module_bound or special in fn_bound or special in params:
            raise _Refuse('%s is rebound' % special)
    if fn.name in fn_bound or fn.name in params:
        raise _Refuse('the name of the function is rebound inside it')

    # -- S = [(iter((ROOT,)), C1, ..., Cn)]
    first = frame if bare else frame.elts[0]
    seed = _iter_arg(first)
    if not (isinstance(seed, (ast.Tuple, ast.List)) and len(seed.elts) == 1 and _is_name(seed.elts[0])):
        raise _Refuse('the initial frame does not iterate over a single root')
    ROOT = seed.elts[0].id
    Cs = []
    for e in ([] if bare else frame.elts[1:]):
        if not _is_name(e):
            raise _Refuse('initial context value is not a parameter')
        Cs.append(e.id)
    if len(set([ROOT] + Cs)) != len(Cs) + 1 or any(p not in params or p == receiver for p in [ROOT] + Cs):
        raise _Refuse('root / initial context values are not distinct parameters')
    if len(fn.body) != at + 2:
        raise _Refuse('statements follow the loop: they would run once per activation')

    # -- the loop header
    loop = fn.body[at + 1]
    if loop.orelse:
        raise _Refuse('while ... else')
    body = loop.body
    if not body:
        raise _Refuse('no header')
    h0 = body[0]
    if not (isinstance(h0, ast.Assign) and len(h0.targets) == 1 and _is_top(h0.value, S)):
        raise _Refuse('the loop does not start with IT, ... = S[-1]')
    t = h0.targets[0]
    if bare:
        if not _is_name(t):
            raise _Refuse('frame shape differs between the initial frame and the header')
        IT, Vs = t.id, []
    else:
        if not (isinstance(t, ast.Tuple) and len(t.elts) == len(Cs) + 1 and all(_is_name(x) for x in t.elts)):
            raise _Refuse('frame shape differs between the initial frame and the header')
        IT, Vs = t.elts[0].id, [x.id for x in t.elts[1:]]
    NODE = SENT = None
    h1 = body[1] if len(body) > 1 else None
    if (isinstance(h1, ast.Assign) and len(h1.targets) == 1 and _is_name(h1.targets[0])
            and isinstance(h1.value, ast.Call) and _is_name(h1.value.func, 'next') and not h1.value.keywords
            and len(h1.value.args) == 2 and _is_name(h1.value.args[0], IT) and _is_name(h1.value.args[1])):
        NODE, SENT = h1.targets[0].id, h1.value.args[1].id
        h2 = body[2] if len(body) > 2 else None
        ok = (isinstance(h2, ast.If) and not h2.orelse and isinstance(h2.test, ast.Compare)
              and len(h2.test.ops) == 1 and isinstance(h2.test.ops[0], ast.Is)
              and _is_name(h2.test.left) and _is_name(h2.test.comparators[0])
              and sorted([h2.test.left.id, h2.test.comparators[0].id]) == sorted([NODE, SENT])
              and NODE != SENT and _is_pop_continue(h2.body, S))
        if not ok:
            raise _Refuse('no `if NODE is SENT: S.pop(); continue` after next()')
        header = 3
    elif (isinstance(h1, ast.Try) and not h1.orelse and not h1.finalbody and len(h1.body) == 1
            and len(h1.handlers) == 1):
        g, h = h1.body[0], h1.handlers[0]
        ok = (isinstance(g, ast.Assign) and len(g.targets) == 1 and _is_name(g.targets[0])
              and isinstance(g.value, ast.Call) and _is_name(g.value.func, 'next') and not g.value.keywords
              and len(g.value.args) == 1 and _is_name(g.value.args[0], IT)
              and _is_name(h.type, 'StopIteration') and h.name is None and _is_pop_continue(h.body, S))
        if not ok:
            raise _Refuse('the try statement is not next() / except StopIteration: S.pop(); continue')
        NODE = g.targets[0].id
        header = 2
    else:
        raise _Refuse('no NODE = next(IT, SENT) after the frame is unpacked')

    # -- the roles of the names
    pairs = [(NODE, ROOT)] + list(zip(Vs, Cs))           # loop variable -> parameter
    loop_vars = [v for v, _ in pairs]
    if len(set(loop_vars + [S, IT])) != len(loop_vars) + 2:
        raise _Refuse('loop variables are not distinct')
    if S in params or IT in params:
        raise _Refuse('stack / iterator variable is a parameter')
    for v, p in pairs:
        if v != p and v in params:
            raise _Refuse('loop variable %r is another parameter' % v)
    if SENT is not None and (SENT in params or SENT in fn_bound or SENT in loop_vars + [S, IT]):
        raise _Refuse('the sentinel is a local')
    declared_global = _check_prologue(fn.body[:at], set(params) - {ROOT, receiver} - set(Cs))
    if declared_global & (set(loop_vars) | {S, IT, SENT, fn.name}):
        raise _Refuse('a variable of the pattern is declared global')

    # -- <rest>: from here on a copy, the function is only touched when everything is fine
    rest = copy.deepcopy(body[header:])
    for n in _walk_scope(rest):
        if isinstance(n, ast.Return):
            raise _Refuse('return at line %s ends the whole walk' % n.lineno)
        if isinstance(n, (ast.Global, ast.Nonlocal)):
            raise _Refuse('global / nonlocal inside the loop')
    if _own_jumps(rest, ast.Break):
        raise _Refuse('break ends the whole walk')
    mentioned = _identifiers(rest)
    if IT in mentioned:
        raise _Refuse('the iterator %r is used outside the header' % IT)
    assigned = _bound(rest, comp_targets=True)
    clash = assigned & (set(params) | set(loop_vars) | {S, IT})
    if clash:
        raise _Refuse('%r is re-assigned in the loop' % sorted(clash)[0])
    for v, p in pairs:
        if p != v and p in mentioned:
            raise _Refuse('parameter %r is used in the loop: it means the outermost call there' % p)
    locals_ = _bound(rest) - declared_global
    varying = set(loop_vars) | locals_ | {S}
    eager = _eager_genexps(rest)
    for n in ast.walk(_wrap(rest)):
        deferred = isinstance(n, _SCOPES) or (isinstance(n, ast.GeneratorExp) and id(n) not in eager)
        if deferred and _identifiers(n) & varying:
            raise _Refuse('deferred scope at line %s captures a per-node variable' % n.lineno)

    # -- pushes: S.append((iter(EXPR), E1..En)); continue -- and no other use of S
    pushes = []
    for block in _loop_level_blocks(rest):
        for i, st in enumerate(block):
            args = _method_call(st, S, 'append', 1)
            if args is None:
                continue
            new = args[0]
            if bare:
                children, ctx = _iter_arg(new), []
            elif isinstance(new, ast.Tuple) and len(new.elts) == len(Cs) + 1:
                children, ctx = _iter_arg(new.elts[0]), new.elts[1:]
            else:
                children = None
            if children is None or any(isinstance(e, ast.Starred) for e in ctx):
                raise _Refuse('pushed frame at line %s has a different shape' % st.lineno)
            if not (i + 1 < len(block) and isinstance(block[i + 1], ast.Continue)):
                raise _Refuse('frame pushed at line %s without `continue`' % st.lineno)
            for e in [children] + ctx:
                for n in ast.walk(e):
                    if isinstance(n, (ast.Yield, ast.YieldFrom, ast.Await, ast.NamedExpr)):
                        raise _Refuse('yield / walrus inside a pushed frame')
            pushes.append((block, i, children, ctx))
    uses = sum(1 for n in ast.walk(_wrap(rest)) if _is_name(n, S))
    if uses != len(pushes):
        raise _Refuse('the stack %r is used other than by push + continue at the level of the loop' % S)
    if not pushes:
        raise _Refuse('no frame is ever pushed')

    # -- per-iteration locals (the pushes only read, so they can stay in for this)
    _DefiniteAssignment(locals_).block(rest, set())

    # -- build
    taken = _identifiers(fn) | module_bound | set(params)
    child = _fresh(NODE + '_child', taken)
    # positional up to the last of ROOT / Ci (and all positional-only ones), the others as p=p
    last = max([positional.index(p) for p in [ROOT] + Cs if p in positional] + [len(a.posonlyargs) - 1])
    for block, i, children, ctx in reversed(pushes):     # reversed: indices in a block stay valid
        pre = []
        if all(_inline_argument(e) for e in ctx):
            iterable, values = children, list(ctx)
        else:
            it_name = _fresh(NODE + '_children', taken)
            pre.append(ast.Assign(targets=[ast.Name(id=it_name, ctx=ast.Store())],
                                  value=ast.Call(func=ast.Name(id='iter', ctx=ast.Load()),
                                                 args=[children], keywords=[])))
            iterable, values = ast.Name(id=it_name, ctx=ast.Load()), []
            for k, e in enumerate(ctx):
                if _inline_argument(e):
                    values.append(e)
                    continue
                tmp = _fresh('%s_ctx%d' % (NODE, k + 1), taken)
                pre.append(ast.Assign(targets=[ast.Name(id=tmp, ctx=ast.Store())], value=e))
                values.append(ast.Name(id=tmp, ctx=ast.Load()))
        actual = dict(zip(Cs, values))
        actual[ROOT] = ast.Name(id=child, ctx=ast.Load())

        def argument(p):
            return copy.deepcopy(actual[p]) if p in actual else ast.Name(id=p, ctx=ast.Load())

        args = [argument(p) for k, p in enumerate(positional) if k <= last and p != receiver]
        keywords = [ast.keyword(arg=p, value=argument(p)) for k, p in enumerate(positional) if k > last]
        keywords += [ast.keyword(arg=p, value=argument(p)) for p in kwonly]
        if receiver is not None:
            func = ast.Attribute(value=ast.Name(id=receiver, ctx=ast.Load()), attr=fn.name, ctx=ast.Load())
        else:
            func = ast.Name(id=fn.name, ctx=ast.Load())
        call = ast.Call(func=func, args=args, keywords=keywords)
        loop_stmt = ast.For(target=ast.Name(id=child, ctx=ast.Store()), iter=iterable,
                            body=[ast.Expr(value=ast.YieldFrom(value=call))], orelse=[])
        ast.copy_location(loop_stmt, block[i])
        block[i:i + 1] = pre + [loop_stmt]               # the `continue` stays behind it
    rename = _Rename({v: p for v, p in pairs if v != p})
    rest = [rename.visit(st) for st in rest]
    new_rest = _lower(rest)
    new_body = list(fn.body[:at]) + new_rest
    return new_body or [ast.Pass()]


def _functions(stmts, path, in_class):
    """(qualified name, FunctionDef, defined directly in a class) for every function that is not
    nested in another function"""
    for st in stmts:
        if isinstance(st, ast.FunctionDef):
            yield '.'.join(path + [st.name]), st, in_class
        elif isinstance(st, ast.ClassDef):
            yield from _functions(st.body, path + [st.name], True)
        elif isinstance(st, (ast.AsyncFunctionDef, ast.Lambda)):
            continue
        else:
            for field in ('body', 'orelse', 'finalbody'):
                yield from _functions(getattr(st, field, []) or [], path, in_class)
            for h in getattr(st, 'handlers', []) or []:
                yield from _functions(h.body, path, in_class)
            for c in getattr(st, 'cases', []) or []:
                yield from _functions(c.body, path, in_class)


def iterator_stack_to_recursion(tree, log=None):
    """Rewrite, in place, every generator function of the module that walks a tree with an explicit
    stack of iterator frames into its recursive form (see the module docstring).  Returns the names
    of the rewritten functions ('f' or 'Class.method').  A function that has the outline but
    violates one of the conditions is left untouched; (name, reason) is appended to `log`."""
    done = []
    module_bound = _bound(list(tree.body))
    for name, fn, in_class in list(_functions(tree.body, [], False)):
        try:
            new_body = _rewrite(fn, in_class, module_bound)
        except _Refuse as e:
            if log is not None:
                log.append((name, str(e)))
            continue
        if new_body is None:
            continue
        fn.body[:] = new_body
        done.append(name)
    if done:
        ast.fix_missing_locations(tree)
    return done


# ---------------------------------------------------------------------------------------------
# self-check

if __name__ == '__main__':
    import os
    import sys
    import textwrap

    sys.path.insert(0, os.path.join(os.path.dirname(os.path.abspath(__file__)), '..'))
    from sa import srcmodel
    from selftest import mutants

    def find_function(tree, name):
        return [n for n in ast.walk(tree) if isinstance(n, ast.FunctionDef) and n.name == name][0]

    # (a) the k3 refactoring of find.tests_from_suite
    unpatched = srcmodel.load_sources()
    with open(os.path.join(os.path.dirname(os.path.abspath(__file__)), '..', 'benign', 'k3', 'patch.diff')) as f:
        patched = mutants.apply_unified_diff(unpatched, f.read())
    assert patched is not None, 'benign/k3/patch.diff does not apply'
    tree = ast.parse(patched['find'])
    assert 'pending' in ast.unparse(find_function(tree, 'tests_from_suite'))
    log = []
    assert iterator_stack_to_recursion(tree, log) == ['tests_from_suite'], log
    fn = find_function(tree, 'tests_from_suite')
    text = ast.unparse(fn)
    print(text)
    compile(ast.unparse(tree), '<find>', 'exec')         # still a well-formed module
    assert 'pending' not in text
    assert "getattr(suite, 'level', dlevel)" in text and "getattr(suite, 'layer', dlayer)" in text
    assert text.count('yield from tests_from_suite(') == 1
    assert not any(isinstance(n, (ast.While, ast.Continue)) for n in ast.walk(fn))
    descents = [n for n in ast.walk(fn) if isinstance(n, ast.For) and _is_name(n.iter, 'suite')]
    assert len(descents) == 1 and len(descents[0].body) == 1
    call = descents[0].body[0].value
    assert isinstance(call, ast.YieldFrom) and _is_name(call.value.func, 'tests_from_suite')
    assert ast.unparse(call.value) == (
        'tests_from_suite(%s, options, level, layer, accept=accept, seen_test_ids=seen_test_ids, '
        'duplicated_test_ids=duplicated_test_ids)' % descents[0].target.id), ast.unparse(call.value)

    # (b) nothing in the unpatched tree has the pattern
    for mod, source in sorted(unpatched.items()):
        tree = ast.parse(source)
        before = ast.dump(tree)
        log = []
        assert iterator_stack_to_recursion(tree, log) == [] and not log, (mod, log)
        assert ast.dump(tree) == before, mod

    # (c) toys
    def run_pass(source):
        tree = ast.parse(textwrap.dedent(source))
        before = ast.dump(tree)
        log = []
        names = iterator_stack_to_recursion(tree, log)
        return tree, names, log, ast.dump(tree) != before

    HEADER = '''
        def walk(root, depth):
            stack = [(iter((root,)), depth)]
            while stack:
                it, d = stack[-1]
                node = next(it, _END)
                if node is _END:
                    stack.pop()
                    continue
    '''
    negatives = {
        'the stack is used after the loop': HEADER + '''
                if isinstance(node, list):
                    stack.append((iter(node), d + 1))
                    continue
                yield (node, d)
            print(stack)
        ''',
        'break in the loop': HEADER + '''
                if isinstance(node, list):
                    stack.append((iter(node), d + 1))
                    continue
                if node is None:
                    break
                yield (node, d)
        ''',
        'frame pushed without continue': HEADER + '''
                if isinstance(node, list):
                    stack.append((iter(node), d + 1))
                yield (node, d)
        ''',
        'node re-assigned': HEADER + '''
                if isinstance(node, list):
                    stack.append((iter(node), d + 1))
                    continue
                node = str(node)
                yield (node, d)
        ''',
        'the prologue initialises a local': HEADER.replace('stack = [', 'seen = 0\n            stack = [') + '''
                if isinstance(node, list):
                    stack.append((iter(node), d + 1))
                    continue
                yield (node, d)
        ''',
        'a local carries a value from node to node': HEADER + '''
                if isinstance(node, list):
                    stack.append((iter(node), d + 1))
                    continue
                if node is not None:
                    last = node
                yield (last, d)
        ''',
        'counter accumulates over the iterations': HEADER + '''
                if isinstance(node, list):
                    stack.append((iter(node), d + 1))
                    continue
                count += 1
                yield (node, d)
        ''',
        'continue inside try': HEADER + '''
                try:
                    if isinstance(node, list):
                        stack.append((iter(node), d + 1))
                        continue
                finally:
                    pass
                yield (node, d)
        ''',
        'parameter of the outermost call used in the loop': HEADER + '''
                if isinstance(node, list):
                    stack.append((iter(node), d + 1))
                    continue
                yield (node, d - depth)
        ''',
        'closure captures the node': HEADER + '''
                if isinstance(node, list):
                    stack.append((iter(node), d + 1))
                    continue
                yield lambda: node
        ''',
        'return in the loop': HEADER + '''
                if isinstance(node, list):
                    stack.append((iter(node), d + 1))
                    continue
                if node is None:
                    return
                yield (node, d)
        ''',
    }
    for why, source in negatives.items():
        tree, names, log, changed = run_pass(source)
        assert names == [] and not changed, why
        assert len(log) == 1 and log[0][0] == 'walk', (why, log)
        print('refused (%s): %s' % (why, log[0][1]))

    def same_behaviour(source, fname, make_calls, expect_in=(), globs=dict):
        source = textwrap.dedent(source)
        tree, names, log, changed = run_pass(source)
        assert names == [fname] and changed, (fname, log)
        new = ast.unparse(tree)
        print(new)
        assert 'stack' not in new and 'while' not in new and 'continue' not in new
        for piece in expect_in:
            assert piece in new, piece
        old_ns, new_ns = globs(), globs()
        exec(compile(source, '<iterative>', 'exec'), old_ns)
        exec(compile(tree, '<recursive>', 'exec'), new_ns)
        n = 0
        for call in make_calls:
            got_old, got_new = list(call(old_ns)), list(call(new_ns))
            assert got_old == got_new, (got_old, got_new)
            n += len(got_old)
        assert n
        return old_ns, new_ns

    DATA = [1, [2, [3, [], 4], 5], [], [[6]], 7, [None, [8, None]]]

    # n = 0, bare iterators, try / except StopIteration, continue for an uninteresting leaf
    same_behaviour('''
        def flatten(tree, skip=None, seen=None):
            """leaves, left to right"""
            if seen is None:
                seen = []
            stack = [iter([tree])]
            while stack:
                it = stack[-1]
                try:
                    item = next(it)
                except StopIteration:
                    stack.pop()
                    continue
                if isinstance(item, list):
                    stack.append(iter(item))
                    continue
                if item is skip:
                    continue
                seen.append(item)
                yield item, len(seen)
    ''', 'flatten', [lambda ns: ns['flatten'](DATA), lambda ns: ns['flatten'](DATA, None), lambda ns: ns['flatten'](5),
                     lambda ns: ns['flatten'](DATA, 7, [0])],
        expect_in=['for item_child in tree:', 'yield from flatten(item_child, skip=skip, seen=seen)'])

    # n = 0, one-tuples as frames, the spelling of the task description
    same_behaviour('''
        def leaves(tree):
            stack = [(iter((tree,)),)]
            while stack:
                it, = stack[-1]
                try:
                    item = next(it)
                except StopIteration:
                    stack.pop()
                    continue
                if not isinstance(item, list):
                    yield item
                    continue
                stack.append((iter(reversed(item)),))
                continue
    ''', 'leaves', [lambda ns: ns['leaves'](DATA)], expect_in=['for item_child in reversed(tree):'])

    # n = 2, a method, keyword-only parameter, context values that have to be evaluated once
    END = object()

    def walker_globals():
        trace = []
        return {'_END': END, 'trace': trace, 'note': lambda p: (trace.append(p), p)[1]}

    old_ns, new_ns = same_behaviour('''
        class Walker:
            def walk(self, root, depth, path, *, sep='/'):
                stack = [(iter((root,)), depth, path)]
                while stack:
                    it, d, p = stack[-1]
                    node = next(it, _END)
                    if _END is node:
                        stack.pop()
                        continue
                    if isinstance(node, list):
                        if not node:
                            yield ('empty', d, p)
                        elif len(node) > 3:
                            stack.append((iter(node[:3]), d + 1, note(p + sep + 'long')))
                            continue
                        else:
                            stack.append((iter(node), d + 1, p))
                            continue
                    else:
                        label = '%s%s%r' % (p, sep, node)
                        yield (label, d)
    ''', 'Walker.walk', [lambda ns: ns['Walker']().walk(DATA, 0, ''), lambda ns: ns['Walker']().walk(DATA, 3, 'x', sep=':')],
        expect_in=['yield from self.walk(node_child, depth + 1, path, sep=sep)',
                   "node_children = iter(root[:3])\n                node_ctx2 = note(path + sep + 'long')",
                   'yield from self.walk(node_child, depth + 1, node_ctx2, sep=sep)'],
        globs=walker_globals)
    assert old_ns['trace'] and old_ns['trace'] == new_ns['trace']          # evaluated once per push, same order
    print('deiter self-check passed')
