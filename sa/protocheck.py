"""Static cross-check of the unittest driver-protocol model (DESIGN 3.2) against the standard
library sources present in the image: TestCase.run of every available CPython >= 3.9 is
analysed with the same CFG engine; nothing is imported or executed."""
import ast
import glob
import os

from .cfg import AnyCall, ExcHier, build_cfg, calls_in
from .srcmodel import dotted
from .variance import path_literals

SUPPORTED_MIN = (3, 9)


def stdlib_case_files():
    out = {}
    pats = ['/root/.pyenv/versions/*/lib/python3.*/unittest/case.py']
    try:
        with open('/venv/pyvenv.cfg') as f:
            for line in f:
                if line.startswith('home'):
                    home = line.split('=', 1)[1].strip()
                    pats.append(os.path.join(os.path.dirname(home), 'lib', 'python3.*', 'unittest', 'case.py'))
    except OSError:
        pass
    for p in pats:
        for fn in glob.glob(p):
            ver = fn.split(os.sep + 'versions' + os.sep)[-1].split(os.sep)[0] if 'versions' in fn else fn
            try:
                t = tuple(int(x) for x in ver.split('.')[:2])
            except ValueError:
                continue
            if t >= SUPPORTED_MIN:
                out[ver] = fn
    return out


def _calls(g, pred):
    out = []
    for n in g.nodes:
        if n.ast is None or n.kind in ('handler', 'resume'):
            continue
        if n.kind == 'with':
            cs = [c for it in n.ast.items for c in calls_in(it.context_expr)]
        else:
            cs = calls_in(n.ast)
        if any(pred(c) for c in cs):
            out.append(n.id)
    return out


def classify(path):
    """-> dict(variant=..., stop_in_finally=bool, finals_guarded=bool, problems=[...])"""
    with open(path, encoding='utf-8') as f:
        tree = ast.parse(f.read())
    for p in ast.walk(tree):
        for c in ast.iter_child_nodes(p):
            c._parent = p
    run = None
    for n in ast.walk(tree):
        if isinstance(n, ast.ClassDef) and n.name == 'TestCase':
            for f in n.body:
                if isinstance(f, ast.FunctionDef) and f.name == 'run':
                    run = f
    if run is None:
        return {'problems': ['TestCase.run not found']}
    g = build_cfg(run, ExcHier(None), AnyCall(quiet_cleanup=True), None, name='TestCase.run')
    S = _calls(g, lambda c: (dotted(c.func) or '').endswith('.startTest'))
    K = _calls(g, lambda c: (dotted(c.func) or '').split('.')[-1] in ('_addSkip', 'addSkip'))
    T = _calls(g, lambda c: (dotted(c.func) or '').endswith('.stopTest'))
    problems = []
    if not S or not T:
        problems.append('startTest/stopTest call not found')
        return {'problems': problems}
    r = g.reach([g.entry], avoid=set(S), include_start=True, edge_ok=lambda s, d, k: k != 'exc')
    skip_first = any(k in r for k in K)
    starts = [d for x in S + [k for k in K if k in r] for d, kk in g.succ[x] if kk != 'exc']
    ok_stop, w = g.every_path_passes(starts, [g.exit, g.raise_exit], set(T), include_start=True)
    finals = [n for n in ast.walk(run) if isinstance(n, ast.Call) and
              (dotted(n.func) or '').split('.')[-1] in ('addSuccess', '_addExpectedFailure',
                                                        '_addUnexpectedSuccess', 'addExpectedFailure',
                                                        'addUnexpectedSuccess')]
    guarded = bool(finals) and all(any('success' in ast.unparse(e) and pos
                                       for e, pos in path_literals(n, run)) for n in finals)
    if not ok_stop:
        problems.append('a path from startTest/addSkip to an exit avoids stopTest')
    if not guarded:
        problems.append('a final event (addSuccess/...) is not guarded by outcome.success')
    sub = _skip_of_subtest(tree)
    if not sub:
        problems.append('addSkip(<subtest object>) not confirmed: testPartExecutor does not pass '
                        'its test_case argument to _addSkip, or subTest does not enter it with the '
                        'subtest object (event addSkip(sub) of the model)')
    return {'variant': 'V-skip-first' if skip_first else 'V-start-first',
            'stop_in_finally': ok_stop, 'finals_guarded': guarded, 'skip_of_subtest': sub,
            'problems': problems}


def _skip_of_subtest(tree):
    """event addSkip(sub): _Outcome.testPartExecutor(test_case, ...) hands *its parameter* to
    _addSkip in the SkipTest handler, and TestCase.subTest enters testPartExecutor with the
    _SubTest object it created (not with self)"""
    tpe = sub = None
    for n in ast.walk(tree):
        if isinstance(n, ast.FunctionDef) and n.name == 'testPartExecutor':
            tpe = n
        if isinstance(n, ast.FunctionDef) and n.name == 'subTest':
            sub = n
    if tpe is None or sub is None or len(tpe.args.args) < 2:
        return False
    param = tpe.args.args[1].arg
    a = False
    for h in ast.walk(tpe):
        if isinstance(h, ast.ExceptHandler) and h.type is not None and 'SkipTest' in ast.unparse(h.type):
            for c in ast.walk(h):
                if isinstance(c, ast.Call) and (dotted(c.func) or '').split('.')[-1] in ('_addSkip', 'addSkip') \
                        and any(isinstance(x, ast.Name) and x.id == param for x in c.args):
                    a = True
                # 3.9 / 3.10: recorded in outcome.skipped and reported after the test by
                # ``for test, reason in outcome.skipped: self._addSkip(result, test, reason)``
                if isinstance(c, ast.Call) and (dotted(c.func) or '').endswith('.skipped.append') and c.args \
                        and isinstance(c.args[0], ast.Tuple) and c.args[0].elts and \
                        isinstance(c.args[0].elts[0], ast.Name) and c.args[0].elts[0].id == param:
                    a = any(isinstance(f, ast.For) and (dotted(f.iter) or '').endswith('.skipped') and
                            isinstance(f.target, ast.Tuple) and f.target.elts and
                            any(isinstance(k, ast.Call) and
                                (dotted(k.func) or '').split('.')[-1] in ('_addSkip', 'addSkip') and
                                any(isinstance(x, ast.Name) and x.id == getattr(f.target.elts[0], 'id', None)
                                    for x in k.args) for k in ast.walk(f))
                            for f in ast.walk(tree)) or a
    b = False
    made = {t.attr if isinstance(t, ast.Attribute) else getattr(t, 'id', None)
            for st in ast.walk(sub) if isinstance(st, ast.Assign) and isinstance(st.value, ast.Call)
            and (dotted(st.value.func) or '').endswith('_SubTest') for t in st.targets}
    for c in ast.walk(sub):
        if isinstance(c, ast.Call) and (dotted(c.func) or '').endswith('testPartExecutor') and c.args:
            x = c.args[0]
            nm = x.attr if isinstance(x, ast.Attribute) else getattr(x, 'id', None)
            if nm in made:
                b = True
    return a and b


def crosscheck(modelled=('V-start-first', 'V-skip-first')):
    table = {}
    stale = []
    for ver, fn in sorted(stdlib_case_files().items()):
        try:
            res = classify(fn)
        except Exception as e:  # a shape the CFG builder does not model
            res = {'problems': ['%s: %s' % (type(e).__name__, e)]}
        table[ver] = res
        if res.get('problems'):
            stale.append('%s: %s' % (ver, '; '.join(res['problems'])))
        elif res['variant'] not in modelled:
            stale.append('%s: variant %s not modelled' % (ver, res['variant']))
    return table, stale


def result_list_shapes():
    """{version: {list name: 'pair' | 'bare'}} from unittest/result.py of every stdlib present"""
    out = {}
    for ver, fn in sorted(stdlib_case_files().items()):
        rp = os.path.join(os.path.dirname(fn), 'result.py')
        try:
            tree = ast.parse(open(rp, encoding='utf-8').read())
        except OSError:
            continue
        shapes = {}
        for n in ast.walk(tree):
            if isinstance(n, ast.Call) and isinstance(n.func, ast.Attribute) and n.func.attr == 'append' \
                    and isinstance(n.func.value, ast.Attribute) and dotted(n.func.value.value) == 'self' \
                    and n.args:
                a = n.args[0]
                shapes.setdefault(n.func.value.attr, set()).add(
                    'pair' if isinstance(a, ast.Tuple) and len(a.elts) == 2 else 'bare')
        out[ver] = {k: (v.pop() if len(v) == 1 else 'mixed') for k, v in shapes.items()}
    return out
