"""Which capture groups of a constant regular expression may be None after a successful match
(computed from the regex syntax tree, never by matching)."""


def optional_groups(pattern):
    """-> (number of groups, set of group numbers that can be unset in a successful match) or None"""
    try:
        import re._parser as sp
    except ImportError:  # pragma: no cover  (Python < 3.11)
        import sre_parse as sp
    try:
        tree = sp.parse(pattern)
    except Exception:
        return None
    opt = set()
    ngroups = [0]

    def walk(seq, optional):
        for op, av in seq:
            name = str(op)
            if name == 'SUBPATTERN':
                group, add, delete, sub = av
                if group is not None:
                    ngroups[0] = max(ngroups[0], group)
                    if optional:
                        opt.add(group)
                walk(sub, optional)
            elif name in ('MAX_REPEAT', 'MIN_REPEAT', 'POSSESSIVE_REPEAT'):
                lo, hi, sub = av
                walk(sub, optional or lo == 0)
            elif name == 'BRANCH':
                _, alts = av
                for a in alts:
                    walk(a, True)
            elif name == 'GROUPREF_EXISTS':
                _, yes, no = av
                walk(yes, True)
                if no:
                    walk(no, True)
            elif name in ('ASSERT', 'ASSERT_NOT'):
                walk(av[1], optional or name == 'ASSERT_NOT')
            elif name == 'ATOMIC_GROUP':
                walk(av, optional)
    walk(tree, False)
    return ngroups[0], opt
