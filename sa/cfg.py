"""T3 -- statement-level control-flow graph with exception edges.

* one node per simple statement, branch test, loop head, ``with`` header, ``except`` clause;
* edges: next / true / false / back / exc;
* ``finally`` bodies are duplicated per continuation kind (normal, exc, return, break,
  continue) so that path queries stay exact;
* exceptions are typed by *tokens* (see ``ExcHier``): what a statement may raise is
  decided by a pluggable oracle, handler clauses are matched in order (may / must catch).

Queries: reachability with avoided nodes, dominators, post-dominators, "every path from A to
an exit passes B", enumeration of acyclic paths.
"""
import ast
from collections import defaultdict

from . import normalise as _norm

from .srcmodel import Undecided, dotted, head

# --------------------------------------------------------------------------------------
# exception tokens


BUILTIN_PARENT = {
    'BaseException': None,
    'BaseOnly': 'BaseException',          # pseudo class: BaseException minus Exception
    'KeyboardInterrupt': 'BaseOnly', 'SystemExit': 'BaseOnly', 'GeneratorExit': 'BaseOnly',
    'Exception': 'BaseException',
    'ArithmeticError': 'Exception', 'ZeroDivisionError': 'ArithmeticError',
    'AssertionError': 'Exception', 'AttributeError': 'Exception', 'EOFError': 'Exception',
    'ImportError': 'Exception', 'ModuleNotFoundError': 'ImportError',
    'LookupError': 'Exception', 'IndexError': 'LookupError', 'KeyError': 'LookupError',
    'MemoryError': 'Exception', 'NameError': 'Exception',
    'OSError': 'Exception', 'IOError': 'Exception', 'EnvironmentError': 'Exception',
    'FileNotFoundError': 'OSError',
    'RuntimeError': 'Exception', 'NotImplementedError': 'RuntimeError',
    'RecursionError': 'RuntimeError',
    'StopIteration': 'Exception', 'SyntaxError': 'Exception', 'TypeError': 'Exception',
    'ValueError': 'Exception', 'UnicodeError': 'ValueError',
    'UnicodeDecodeError': 'UnicodeError', 'UnicodeEncodeError': 'UnicodeError',
    'unittest.SkipTest': 'Exception', 'SkipTest': 'Exception',
    'queue.Empty': 'Exception', 'io.UnsupportedOperation': 'OSError',
    'subprocess.SubprocessError': 'Exception',
}


class ExcHier:
    """Class ancestry: builtins (static table) + exception classes defined in the package."""

    def __init__(self, model=None):
        self.parent = dict(BUILTIN_PARENT)
        self.model = model
        if model is not None:
            for ci in model.all_classes():
                for b in ci.bases:
                    if not b:
                        continue
                    bc = model.resolve_class(ci.module, b)
                    bname = bc.name if bc is not None else b.split('.')[-1]
                    if bc is not None or bname in self.parent or b in self.parent:
                        self.parent.setdefault(ci.name, b if b in self.parent else bname)
                        break
            for name in [k for k in self.parent if k not in BUILTIN_PARENT]:
                if not self.is_sub(name, 'BaseException'):
                    del self.parent[name]

    def name_of(self, module, expr):
        """Class name for a handler type / raised expression, or None if unknown."""
        d = dotted(expr)
        if d is None:
            return None
        if d in self.parent:
            return d
        last = d.split('.')[-1]
        if last in self.parent:
            return last
        return None

    def is_sub(self, a, b):
        seen = set()
        while a is not None and a not in seen:
            if a == b:
                return True
            seen.add(a)
            a = self.parent.get(a)
        return False

    def catches(self, handler_names, tok):
        """(may, must, refined token) of a handler clause for a token.
        handler_names None = bare except."""
        kind, c = tok
        if handler_names is None:
            return True, True, tok
        known = [h for h in handler_names if h is not None]
        must = any(self.is_sub(c, h) for h in known)
        if must:
            return True, True, tok
        if kind == 'open':
            subs = [h for h in known if self.is_sub(h, c)]
            if subs:
                return True, False, ('open', subs[0])
        if len(known) != len(handler_names):
            return True, False, tok      # handler for a class we cannot name: may catch
        return False, False, None


def T_open(c):
    return ('open', c)


def T_exact(c):
    return ('exact', c)


ANY_EXC = frozenset([T_open('Exception'), T_open('BaseOnly')])


def tok_str(t):
    return ('%s+' if t[0] == 'open' else '%s') % t[1]


def toks_str(ts):
    return '{' + ', '.join(sorted(tok_str(t) for t in ts)) + '}'


# --------------------------------------------------------------------------------------
# graph


class Node:
    __slots__ = ('id', 'kind', 'ast', 'stmt', 'copy', 'lineno')

    def __init__(self, id, kind, astnode, stmt, copy):
        self.id = id
        self.kind = kind       # entry exit raise_exit stmt test for with handler
        self.ast = astnode     # the expression / statement evaluated at this node
        self.stmt = stmt       # the enclosing statement (If for a test, For for a loop head)
        self.copy = copy       # '' or tag of the finally copy chain, e.g. 'F823:exc'
        self.lineno = getattr(astnode, 'lineno', None) or getattr(stmt, 'lineno', None)

    def text(self):
        if self.kind in ('entry', 'exit', 'raise_exit'):
            return '<%s>' % self.kind
        if self.kind == 'resume':
            return '<continue after finally>'
        if self.kind == 'test':
            return head(self.stmt)
        if self.kind in ('for', 'with', 'handler'):
            return head(self.stmt)
        return head(self.ast)

    def __repr__(self):
        return 'N%d[%s L%s %s%s]' % (self.id, self.kind, self.lineno, self.text()[:50],
                                     (' @' + self.copy) if self.copy else '')


class Abrupt:
    __slots__ = ('kind', 'srcs', 'toks')

    def __init__(self, kind, srcs, toks=frozenset()):
        self.kind = kind      # exc return break continue
        self.srcs = srcs      # list of (node id, edge kind)
        self.toks = frozenset(toks)


class CFG:
    def __init__(self, func_node, name=''):
        self.func = func_node
        self.name = name
        self.nodes = []
        self.succ = defaultdict(list)   # id -> [(dst, kind)]
        self.pred = defaultdict(list)
        self.entry = self._new('entry', None, None, '')
        self.exit = self._new('exit', None, None, '')
        self.raise_exit = self._new('raise_exit', None, None, '')
        self.escape_sources = []        # [(node id, tokens)] reaching raise_exit
        self.exc_toks = {}              # (src, dst) -> tokens for exc edges
        self.node_raises = {}           # node id -> tokens the oracle gave
        self.back = set()               # (src, dst) loop back edges
        self._flags = None

    def _new(self, kind, astnode, stmt, copy):
        n = Node(len(self.nodes), kind, astnode, stmt, copy)
        self.nodes.append(n)
        return n.id

    def _edge(self, a, b, kind, toks=None):
        if (b, kind) not in self.succ[a]:
            self.succ[a].append((b, kind))
            self.pred[b].append((a, kind))
        if toks is not None:
            self.exc_toks[(a, b)] = frozenset(toks) | self.exc_toks.get((a, b), frozenset())

    # ---- queries -------------------------------------------------------------------
    def find(self, pred):
        return [n.id for n in self.nodes if pred(n)]

    def find_stmt(self, pred):
        """ids of nodes whose ast statement satisfies pred (all finally copies)."""
        return [n.id for n in self.nodes if n.ast is not None and pred(n.ast)]

    def node(self, i):
        return self.nodes[i]

    def reach(self, starts, avoid=(), edge_ok=None, include_start=False):
        """Forward reachability from the successors of *starts* (or from starts themselves)."""
        avoid = set(avoid)
        seen = set()
        work = []
        if include_start:
            work = [s for s in starts if s not in avoid]
        else:
            for s in starts:
                for d, k in self.succ[s]:
                    if edge_ok is None or edge_ok(s, d, k):
                        work.append(d)
        while work:
            n = work.pop()
            if n in seen or n in avoid:
                continue
            seen.add(n)
            for d, k in self.succ[n]:
                if edge_ok is None or edge_ok(n, d, k):
                    work.append(d)
        return seen

    def reach_back(self, targets, avoid=()):
        avoid = set(avoid)
        seen = set()
        work = [s for t in targets for s, _ in self.pred[t]]
        while work:
            n = work.pop()
            if n in seen or n in avoid:
                continue
            seen.add(n)
            work.extend(s for s, _ in self.pred[n])
        return seen

    def live_nodes(self):
        return self.reach([self.entry], include_start=True)

    def dominators(self, root=None, forward=True):
        """dom[n] = set of nodes on every path root -> n (iterative data flow)."""
        root = self.entry if root is None else root
        nxt = self.succ if forward else self.pred
        prv = self.pred if forward else self.succ
        nodes = set()
        work = [root]
        while work:
            n = work.pop()
            if n in nodes:
                continue
            nodes.add(n)
            work.extend(d for d, _ in nxt[n])
        dom = {n: set(nodes) for n in nodes}
        dom[root] = {root}
        changed = True
        order = sorted(nodes)
        while changed:
            changed = False
            for n in order:
                if n == root:
                    continue
                ps = [p for p, _ in prv[n] if p in nodes]
                new = set.intersection(*(dom[p] for p in ps)) if ps else set()
                new = new | {n}
                if new != dom[n]:
                    dom[n] = new
                    changed = True
        return dom

    def every_path_passes(self, starts, goals, through, include_start=False, edge_ok=None):
        """True iff every path from (the successors of) *starts* to a node of *goals* contains
        a node of *through*.  Returns (ok, witness goal id)."""
        r = self.reach(starts, avoid=through, include_start=include_start, edge_ok=edge_ok)
        for g in goals:
            if g in r:
                return False, g
        return True, None

    def path(self, starts, goal, avoid=(), include_start=False, edge_ok=None):
        """One shortest path (list of node ids) from starts to goal avoiding *avoid*, or None."""
        avoid = set(avoid)
        from collections import deque
        q = deque()
        prev = {}
        if include_start:
            for s in starts:
                if s not in avoid:
                    prev[s] = None
                    q.append(s)
        else:
            for s in starts:
                for d, k in self.succ[s]:
                    if d not in avoid and d not in prev and (edge_ok is None or edge_ok(s, d, k)):
                        prev.setdefault(s, None)
                        prev[d] = s
                        q.append(d)
        while q:
            n = q.popleft()
            if n == goal:
                out = []
                while n is not None:
                    out.append(n)
                    n = prev[n]
                return list(reversed(out))
            for d, k in self.succ[n]:
                if d not in prev and d not in avoid and (edge_ok is None or edge_ok(n, d, k)):
                    prev[d] = n
                    q.append(d)
        return None

    def describe_path(self, ids, limit=14):
        out = []
        for i in ids:
            n = self.nodes[i]
            out.append('L%s %s%s' % (n.lineno, n.text()[:70], ('@' + n.copy) if n.copy else ''))
        if len(out) > limit:
            out = out[:limit // 2] + ['...'] + out[-limit // 2:]
        return out

    def back_edges(self):
        return sorted(self.back)

    # ---- path sensitivity on local boolean flags -----------------------------------------
    def flag_names(self):
        """Locals that are only ever assigned the constants True / False / None."""
        if self._flags is None:
            cand, bad = set(), set()
            args = self.func.args
            for a in args.posonlyargs + args.args + args.kwonlyargs:
                bad.add(a.arg)
            for n in walk_no_defs(self.func):
                if isinstance(n, ast.Assign):
                    for t in n.targets:
                        for nm in ast.walk(t):
                            if isinstance(nm, ast.Name):
                                if len(n.targets) == 1 and t is nm and \
                                        isinstance(n.value, ast.Constant) and \
                                        n.value.value in (True, False, None):
                                    cand.add(nm.id)
                                else:
                                    bad.add(nm.id)
                elif isinstance(n, (ast.AugAssign, ast.AnnAssign, ast.NamedExpr)):
                    for nm in ast.walk(n.target):
                        if isinstance(nm, ast.Name):
                            bad.add(nm.id)
                elif isinstance(n, (ast.For, ast.comprehension)):
                    for nm in ast.walk(n.target):
                        if isinstance(nm, ast.Name):
                            bad.add(nm.id)
                elif isinstance(n, (ast.With,)):
                    for it in n.items:
                        if it.optional_vars is not None:
                            for nm in ast.walk(it.optional_vars):
                                if isinstance(nm, ast.Name):
                                    bad.add(nm.id)
                elif isinstance(n, ast.ExceptHandler) and n.name:
                    bad.add(n.name)
                elif isinstance(n, (ast.Global, ast.Nonlocal)):
                    bad.update(n.names)
            self._flags = cand - bad
        return self._flags

    def _flag_edge_ok(self, node, kind, st, atom=None):
        if node.kind != 'test' or kind not in ('true', 'false'):
            return True

        def ev(e):
            if isinstance(e, ast.BoolOp):
                vals = [ev(v) for v in e.values]
                if isinstance(e.op, ast.And):
                    if any(v is False for v in vals):
                        return False
                    return True if all(v is True for v in vals) else None
                if any(v is True for v in vals):
                    return True
                return False if all(v is False for v in vals) else None
            if isinstance(e, ast.UnaryOp) and isinstance(e.op, ast.Not):
                v = ev(e.operand)
                return None if v is None else (not v)
            if isinstance(e, ast.Name) and e.id in st:
                return bool(st[e.id])
            if atom is not None:
                return atom(e)
            return None
        v = ev(node.ast)
        if v is None:
            return True
        return kind == ('true' if v else 'false')

    def reach_flags(self, starts, avoid=(), edge_ok=None, include_start=False, init=None,
                    states=False, atom=None):
        """Like reach(), but tracks the values of the flag locals along each path and prunes
        branches on them (abstract interpretation of the guards only)."""
        flags = self.flag_names()
        avoid = set(avoid)
        init = tuple(sorted((init or {}).items()))
        seen = set()
        work = []

        def step(n, st):
            node = self.nodes[n]
            if node.kind == 'stmt' and isinstance(node.ast, ast.Assign) and \
                    len(node.ast.targets) == 1 and isinstance(node.ast.targets[0], ast.Name) and \
                    node.ast.targets[0].id in flags:
                d = dict(st)
                d[node.ast.targets[0].id] = node.ast.value.value
                st = tuple(sorted(d.items(), key=lambda kv: kv[0]))
            return st
        for s in starts:
            if include_start:
                if s not in avoid:
                    work.append((s, init))
            else:
                st = step(s, init)
                for d, k in self.succ[s]:
                    if (edge_ok is None or edge_ok(s, d, k)) and \
                            self._flag_edge_ok(self.nodes[s], k, dict(st), atom):
                        work.append((d, st))
        while work:
            n, st = work.pop()
            if (n, st) in seen or n in avoid:
                continue
            seen.add((n, st))
            st2 = step(n, st)
            for d, k in self.succ[n]:
                if (edge_ok is None or edge_ok(n, d, k)) and \
                        self._flag_edge_ok(self.nodes[n], k, dict(st2), atom):
                    work.append((d, st2))
        if states:
            return {(n, st) for n, st in seen}
        return {n for n, _ in seen}

    def loop_nodes(self, head_id):
        """ids of the nodes that belong syntactically to the body of the loop with this head"""
        st = self.nodes[head_id].stmt
        inside = set()
        for b in st.body:
            for x in ast.walk(b):
                inside.add(id(x))
        out = set()
        for n in self.nodes:
            a = n.ast if n.ast is not None else n.stmt
            if a is not None and id(a) in inside:
                out.add(n.id)
        return out

    def dominating_literals(self, nid, expand=None):
        """Branch literals that hold on EVERY path from the entry to node *nid*: for each test
        node, if *nid* is unreachable once the true (false) edge of the test is removed, the
        test is known true (false) at *nid*.  Unlike syntactic nesting this also sees early
        ``return`` / ``continue`` / ``break`` guards.  Returns [(expr, positive)] with ``not``
        pushed inwards and conjunctions split; *expand(expr)* may substitute locals."""
        from .variance import split_literals
        out = []
        live = self.reach([self.entry], include_start=True)
        if nid not in live:
            return out
        for t in self.nodes:
            if t.kind != 'test' or t.id == nid or t.id not in live:
                continue
            kinds = {k for d, k in self.succ[t.id]}
            for pol, k in ((True, 'true'), (False, 'false')):
                if k not in kinds:
                    continue
                r = self.reach([self.entry], include_start=True,
                               edge_ok=lambda s_, d_, k_, t=t, k=k: not (s_ == t.id and k_ == k))
                if nid not in r:
                    e = t.ast
                    if expand is not None:
                        e = expand(e)
                    out += split_literals(e, pol)
        return out

    def flag_states_at(self, nid):
        """the flag valuations with which node *nid* can be reached from the entry"""
        return [dict(st) for n, st in self.reach_flags([self.entry], include_start=True,
                                                        states=True) if n == nid]

    def stats(self):
        return {'nodes': len(self.nodes), 'edges': sum(len(v) for v in self.succ.values())}

    def dump(self):  # debugging aid
        out = []
        for n in self.nodes:
            out.append('%r -> %s' % (n, ', '.join('%d(%s)' % (d, k) for d, k in self.succ[n.id])))
        return '\n'.join(out)


# --------------------------------------------------------------------------------------
# raise oracles


def _has_call(node):
    for x in walk_no_defs(node):
        if isinstance(x, ast.Call):
            return True
    return False


def walk_no_defs(node):
    """ast.walk that does not descend into nested function/class/lambda bodies."""
    todo = [node]
    first = True
    while todo:
        n = todo.pop()
        if not first and isinstance(n, (ast.FunctionDef, ast.AsyncFunctionDef, ast.ClassDef,
                                        ast.Lambda)):
            continue
        first = False
        yield n
        todo.extend(ast.iter_child_nodes(n))


def calls_in(node):
    """Call nodes in (approximate) evaluation order: inner before outer, left to right."""
    out = []

    def go(n, top=False):
        if not top and isinstance(n, (ast.FunctionDef, ast.AsyncFunctionDef, ast.ClassDef,
                                      ast.Lambda)):
            return
        for c in ast.iter_child_nodes(n):
            go(c)
        if isinstance(n, ast.Call):
            out.append(n)
    if isinstance(node, (ast.FunctionDef, ast.AsyncFunctionDef, ast.ClassDef)):
        for d in getattr(node, 'decorator_list', []):
            go(d)
        return out
    go(node, True)
    return out


class NoRaise:
    """Nothing raises except explicit ``raise``."""

    def tokens(self, node, ctx):
        return frozenset()


class AnyCall:
    """Every statement containing a call (or assert / del of a subscript) may raise anything.
    With quiet_cleanup, statements inside handler and finally bodies are assumed not to
    fail (clean-up code)."""

    def __init__(self, quiet_cleanup=False, quiet=None):
        self.quiet_cleanup = quiet_cleanup
        self.quiet = quiet

    def tokens(self, node, ctx):
        if self.quiet_cleanup and ctx.in_cleanup:
            return frozenset()
        if self.quiet is not None and self.quiet(node):
            return frozenset()
        if isinstance(node, (ast.FunctionDef, ast.ClassDef, ast.AsyncFunctionDef)):
            return frozenset()
        if isinstance(node, ast.Assert) or _has_call(node):
            return ANY_EXC
        if isinstance(node, ast.Delete) and any(isinstance(t, ast.Subscript)
                                                for t in node.targets):
            return frozenset([T_open('LookupError')])
        return frozenset()


class Lookups:
    """Only a subscript READ may raise (LookupError): for code that uses ``try: d[k] except KeyError``
    as its membership test, so that the handler is part of the graph."""

    def tokens(self, node, ctx):
        if isinstance(node, (ast.FunctionDef, ast.ClassDef, ast.AsyncFunctionDef)):
            return frozenset()
        if any(isinstance(x, ast.Subscript) and isinstance(x.ctx, ast.Load) for x in walk_no_defs(node)):
            return frozenset([T_open('LookupError')])
        return frozenset()


class Catalogue:
    """Only catalogued sources raise: ``fn(call) -> tokens or None`` decides per call site."""

    def __init__(self, fn):
        self.fn = fn

    def tokens(self, node, ctx):
        if isinstance(node, (ast.FunctionDef, ast.ClassDef, ast.AsyncFunctionDef)):
            return frozenset()
        out = set()
        for c in calls_in(node):
            t = self.fn(c)
            if t:
                out |= set(t)
        return frozenset(out)


# --------------------------------------------------------------------------------------
# builder


class _Ctx:
    __slots__ = ('copy', 'handler_toks', 'in_cleanup')

    def __init__(self, copy='', handler_toks=None, in_cleanup=False):
        self.copy = copy
        self.handler_toks = handler_toks
        self.in_cleanup = in_cleanup

    def with_(self, **kw):
        c = _Ctx(self.copy, self.handler_toks, self.in_cleanup)
        for k, v in kw.items():
            setattr(c, k, v)
        return c


class Builder:
    def __init__(self, hier, oracle=None, module=None, branch_oracle=None,
                 noreturn=None):
        self.hier = hier
        self.oracle = oracle or NoRaise()
        self.module = module
        self.branch_oracle = branch_oracle     # test expr -> True/False/None
        self.noreturn = noreturn               # call -> bool (callee never returns normally)

    def build(self, func_node, name=''):
        g = CFG(func_node, name)
        self.g = g
        normal, abrupt = self._seq(func_node.body, [(g.entry, 'next')], _Ctx())
        for s, k in normal:
            g._edge(s, g.exit, k)
        for a in abrupt:
            if a.kind == 'return':
                for s, k in a.srcs:
                    g._edge(s, g.exit, k)
            elif a.kind == 'exc':
                for s, k in a.srcs:
                    g._edge(s, g.raise_exit, 'exc', a.toks)
                    g.escape_sources.append((s, a.toks))
            else:
                raise Undecided('%s outside loop in %s' % (a.kind, name))
        return g

    # -- helpers
    def _connect(self, preds, n):
        for s, k in preds:
            self.g._edge(s, n, k)

    def _raises(self, n, node, ctx, extra=frozenset()):
        toks = frozenset(self.oracle.tokens(node, ctx)) | frozenset(extra)
        if toks:
            self.g.node_raises[n] = toks
            return [Abrupt('exc', [(n, 'exc')], toks)]
        return []

    def _is_noreturn_stmt(self, st):
        if self.noreturn is None or not isinstance(st, ast.Expr):
            return False
        return isinstance(st.value, ast.Call) and self.noreturn(st.value)

    def _seq(self, stmts, preds, ctx):
        abrupt = []
        for st in stmts:
            if not preds:
                break          # unreachable code after return/raise/...
            preds, ab = self._stmt(st, preds, ctx)
            abrupt.extend(ab)
        return preds, abrupt

    def _const_test(self, test):
        if isinstance(test, ast.Constant):
            return bool(test.value)
        if self.branch_oracle is not None:
            return self.branch_oracle(test)
        return None

    def _stmt(self, st, preds, ctx):
        g = self.g
        if isinstance(st, ast.If):
            t = g._new('test', st.test, st, ctx.copy)
            self._connect(preds, t)
            abrupt = self._raises(t, st.test, ctx)
            cv = self._const_test(st.test)
            out = []
            if cv is not False:
                n1, a1 = self._seq(st.body, [(t, 'true')], ctx)
                out += n1
                abrupt += a1
            if cv is not True:
                if st.orelse:
                    n2, a2 = self._seq(st.orelse, [(t, 'false')], ctx)
                    out += n2
                    abrupt += a2
                else:
                    out.append((t, 'false'))
            return out, abrupt
        if isinstance(st, (ast.While, ast.For, ast.AsyncFor)):
            if isinstance(st, ast.While):
                h = g._new('test', st.test, st, ctx.copy)
                abrupt = self._raises(h, st.test, ctx)
                cv = self._const_test(st.test)
            else:
                h = g._new('for', st.iter, st, ctx.copy)
                abrupt = self._raises(h, st.iter, ctx)
                cv = None
            self._connect(preds, h)
            body_n, body_a = ([], [])
            if cv is not False:
                body_n, body_a = self._seq(st.body, [(h, 'true')], ctx)
            for s, k in body_n:
                g._edge(s, h, k)
                g.back.add((s, h))
            out = []
            rest = []
            for a in body_a:
                if a.kind == 'continue':
                    for s, k in a.srcs:
                        g._edge(s, h, k)
                        g.back.add((s, h))
                elif a.kind == 'break':
                    out += a.srcs
                else:
                    rest.append(a)
            abrupt += rest
            if cv is not True:
                if st.orelse:
                    n2, a2 = self._seq(st.orelse, [(h, 'false')], ctx)
                    out += n2
                    abrupt += a2
                else:
                    out.append((h, 'false'))
            return out, abrupt
        if _norm.is_block(st):
            # sa.normalise: inlined helper body; ``__inline_return__K`` jumps to its end
            lab = 'ijump:' + _norm.block_label(st)
            n1, a1 = self._seq(st.body, preds, ctx)
            out = list(n1)
            abrupt = []
            for a in a1:
                if a.kind == lab:
                    out += a.srcs
                else:
                    abrupt.append(a)
            return out, abrupt
        if isinstance(st, (ast.With, ast.AsyncWith)):
            w = g._new('with', st, st, ctx.copy)
            self._connect(preds, w)
            abrupt = []
            for it in st.items:
                abrupt += self._raises(w, it.context_expr, ctx)
            n1, a1 = self._seq(st.body, [(w, 'next')], ctx)
            sup = self._suppressed(st)
            out = list(n1)
            for a in a1:
                if a.kind == 'exc' and sup is not None:
                    rem = set()
                    for t in a.toks:
                        may, must, _ = self.hier.catches(sup, t)
                        if may:
                            out += a.srcs
                        if not must:
                            rem.add(t)
                    if rem:
                        abrupt.append(Abrupt('exc', a.srcs, rem))
                else:
                    abrupt.append(a)
            return out, abrupt
        if isinstance(st, ast.Try) or type(st).__name__ == 'TryStar':
            return self._try(st, preds, ctx)
        if isinstance(st, ast.Match):
            raise Undecided('match statement not modelled (line %s)' % st.lineno)
        # ---- simple statements
        n = g._new('stmt', st, st, ctx.copy)
        self._connect(preds, n)
        if _norm.jump_label(st) is not None:
            return [], [Abrupt('ijump:' + _norm.jump_label(st), [(n, 'next')])]
        if isinstance(st, ast.Return):
            ab = self._raises(n, st, ctx) if st.value is not None else []
            return [], ab + [Abrupt('return', [(n, 'next')])]
        if isinstance(st, ast.Raise):
            if st.exc is None:
                toks = ctx.handler_toks if ctx.handler_toks is not None else ANY_EXC
            else:
                target = st.exc.func if isinstance(st.exc, ast.Call) else st.exc
                nm = self.hier.name_of(self.module, target)
                if nm is not None:
                    toks = [T_exact(nm)]
                else:
                    toks = ANY_EXC
            self.g.node_raises[n] = frozenset(toks)
            return [], [Abrupt('exc', [(n, 'exc')], toks)]
        if isinstance(st, ast.Break):
            return [], [Abrupt('break', [(n, 'next')])]
        if isinstance(st, ast.Continue):
            return [], [Abrupt('continue', [(n, 'next')])]
        ab = self._raises(n, st, ctx)
        if self._is_noreturn_stmt(st):
            return [], ab
        return [(n, 'next')], ab

    def _suppressed(self, st):
        names = []
        for it in st.items:
            c = it.context_expr
            if isinstance(c, ast.Call) and (dotted(c.func) or '').split('.')[-1] == 'suppress':
                for a in c.args:
                    nm = self.hier.name_of(self.module, a)
                    if nm is None:
                        raise Undecided('suppress() of unknown class (line %s)' % st.lineno)
                    names.append(nm)
        return names or None

    def _handler_names(self, h):
        if h.type is None:
            return None
        elts = h.type.elts if isinstance(h.type, ast.Tuple) else [h.type]
        names = []
        for e in elts:
            nm = self.hier.name_of(self.module, e)
            names.append(nm)       # None = a class we cannot name (may catch, never must)
        return names

    def _try(self, st, preds, ctx):
        g = self.g
        body_n, body_a = self._seq(st.body, preds, ctx)
        out = []
        abrupt = []
        # --- match exceptions from the body against the handlers, in order
        pending = [a for a in body_a if a.kind == 'exc']
        abrupt += [a for a in body_a if a.kind != 'exc']
        for h in st.handlers:
            names = self._handler_names(h)
            caught_srcs = []
            caught_toks = set()
            nxt = []
            for a in pending:
                rem = set()
                got = set()
                for t in a.toks:
                    may, must, ref = self.hier.catches(names, t)
                    if may:
                        got.add(ref)
                    if not must:
                        rem.add(t)
                if got:
                    caught_srcs.append((a.srcs, frozenset(got)))
                    caught_toks |= got
                if rem:
                    nxt.append(Abrupt('exc', a.srcs, rem))
            pending = nxt
            if not caught_srcs:
                continue        # handler unreachable under the oracle
            hn = g._new('handler', h, h, ctx.copy)
            for srcs, toks in caught_srcs:
                for s, k in srcs:
                    g._edge(s, hn, 'exc', toks)
            hctx = ctx.with_(handler_toks=frozenset(caught_toks), in_cleanup=True)
            n1, a1 = self._seq(h.body, [(hn, 'next')], hctx)
            out += n1
            abrupt += a1
        abrupt += pending
        # --- else
        if st.orelse:
            n2, a2 = self._seq(st.orelse, body_n, ctx)
            out += n2
            abrupt += a2
        else:
            out += body_n
        if not st.finalbody:
            return out, abrupt
        # --- finally: one copy per continuation kind
        tag = 'F%s' % st.lineno
        res_n = []
        res_a = []
        if out:
            fctx = ctx.with_(copy=(ctx.copy + '/' if ctx.copy else '') + tag + ':normal',
                             in_cleanup=True)
            n3, a3 = self._seq(st.finalbody, out, fctx)
            res_n += n3
            res_a += a3
        groups = defaultdict(list)
        for a in abrupt:
            groups[a.kind].append(a)
        for kind in ['exc', 'return', 'break', 'continue'] + sorted(
                k for k in groups if k.startswith('ijump:')):
            if kind not in groups:
                continue
            srcs = [s for a in groups[kind] for s in a.srcs]
            toks = frozenset(t for a in groups[kind] for t in a.toks)
            fctx = ctx.with_(copy=(ctx.copy + '/' if ctx.copy else '') + tag + ':' + kind,
                             in_cleanup=True, handler_toks=None)
            # edges entering an exc copy keep their kind
            n4, a4 = self._seq(st.finalbody, srcs, fctx)
            res_a += a4
            if n4:
                # a pass-through node keeps the branch kinds of the edges that leave the copy
                # apart from the kind of the continuation (exc / return / break / continue)
                rn = g._new('resume', None, st, fctx.copy)
                for s_, k_ in n4:
                    g._edge(s_, rn, k_)
                res_a.append(Abrupt(kind, [(rn, 'exc' if kind == 'exc' else 'next')], toks))
        return res_n, res_a


def build_cfg(func_node, hier, oracle=None, module=None, branch_oracle=None, noreturn=None,
              name=''):
    return Builder(hier, oracle, module, branch_oracle, noreturn).build(func_node, name)
