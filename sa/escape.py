"""T4 -- interprocedural exception-escape analysis.

For a set of functions to follow and a catalogue of raise sources, compute for every followed
function the set of exception tokens that can leave it (handler order, bare ``raise``,
``raise New``, else/finally are handled by the CFG builder).  Call sites of followed functions
raise the callee's summary; summaries are iterated to a fixpoint (setup_layer is recursive).
"""
from .cfg import Catalogue, build_cfg, toks_str


class Escape:
    def __init__(self, ctx, follow, sources, branch=None, spec=None):
        """follow: iterable of qualified function names; sources(call, fi) -> tokens or None;
        branch(test expr, fi) -> True/False/None evaluates configuration atoms;
        spec: {qualname: boolean parameter name} -- such functions get one summary per value
        of that parameter, selected at each call site from the constant argument."""
        self.ctx = ctx
        self.follow = [ctx.model.func(q) for q in follow]
        self.names = {f.qualname for f in self.follow}
        self.sources = sources
        self.branch = branch
        self.spec = dict(spec or {})
        self.summary = {}
        for f in self.follow:
            if f.qualname in self.spec:
                self.summary[(f.qualname, True)] = frozenset()
                self.summary[(f.qualname, False)] = frozenset()
            else:
                self.summary[f.qualname] = frozenset()
        self.cfgs = {}
        self.rounds = 0
        self._solve()

    def _spec_value(self, call, t):
        """value of the specialised boolean parameter at this call site: True/False/None"""
        import ast
        pname = self.spec[t.qualname]
        a = t.node.args
        names = [x.arg for x in a.posonlyargs + a.args]
        for k in call.keywords:
            if k.arg == pname:
                return k.value.value if isinstance(k.value, ast.Constant) else None
        if pname in names:
            i = names.index(pname)
            if i < len(call.args):
                v = call.args[i]
                return v.value if isinstance(v, ast.Constant) else None
            j = i - (len(names) - len(a.defaults))
            if 0 <= j < len(a.defaults) and isinstance(a.defaults[j], ast.Constant):
                return a.defaults[j].value
        return None

    def _oracle(self, fi):
        def fn(call):
            out = set()
            s = self.sources(call, fi)
            if s:
                out |= set(s)
            r = self.ctx.cg.resolve_call(call, fi)
            if isinstance(r, list):
                for t in r:
                    if t.qualname in self.spec:
                        v = self._spec_value(call, t)
                        for val in ((True, False) if v is None else (bool(v),)):
                            out |= self.summary[(t.qualname, val)]
                    elif t.qualname in self.summary:
                        out |= self.summary[t.qualname]
            return out or None
        return Catalogue(fn)

    def _build(self, fi, specval=None):
        def br(t, fi=fi):
            if specval is not None:
                import ast
                pos, e = True, t
                while isinstance(e, ast.UnaryOp) and isinstance(e.op, ast.Not):
                    pos, e = not pos, e.operand
                if isinstance(e, ast.Name) and e.id == self.spec[fi.qualname]:
                    return specval if pos else (not specval)
            return self.branch(t, fi) if self.branch else None
        # noreturn callees are represented by their escape summary (an exc edge); the normal
        # edge is removed by the noreturn predicate
        return build_cfg(fi.node, self.ctx.hier, self._oracle(fi), fi.module, branch_oracle=br,
                         noreturn=self.ctx.noreturn_pred(fi), name=fi.qualname)

    def _solve(self):
        changed = True
        while changed:
            changed = False
            self.rounds += 1
            if self.rounds > 20:
                raise RuntimeError('escape analysis does not converge')
            for fi in self.follow:
                keys = [(fi.qualname, True), (fi.qualname, False)] \
                    if fi.qualname in self.spec else [fi.qualname]
                for key in keys:
                    g = self._build(fi, key[1] if isinstance(key, tuple) else None)
                    self.cfgs[key] = g
                    live = g.live_nodes()
                    toks = frozenset(t for n, ts in g.escape_sources if n in live for t in ts)
                    if toks != self.summary[key]:
                        self.summary[key] = toks
                        changed = True

    def tokens(self, qualname, specval=None):
        return self.summary[(qualname, specval) if qualname in self.spec else qualname]

    def cfg(self, qualname, specval=None):
        return self.cfgs[(qualname, specval) if qualname in self.spec else qualname]

    def describe(self):
        return {str(q): toks_str(t) for q, t in sorted(self.summary.items(), key=str)}


def classes_of(tokens, hier, under='Exception'):
    """Names of the token classes that are (or may be) subclasses of *under*."""
    out = set()
    for kind, c in tokens:
        if hier.is_sub(c, under):
            out.add(c)
        elif kind == 'open' and hier.is_sub(under, c):
            out.add(under)
    return out
