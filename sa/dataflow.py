"""T10 -- forward *must* data-flow over the statement CFG (sa.cfg).

Facts are hashable tuples; the value at a node is the set of facts that hold on EVERY path from
the entry to that node (intersection at joins, iterated to the greatest fixpoint).  The transfer
function is supplied by the rule; it sees the node and the kind of the outgoing edge, so a fact can
be generated on the true edge of a test only.  No path is enumerated and nothing is executed.
"""

TOP = None      # "all facts": the value of a node no path has reached yet


def must_forward(g, transfer, entry_facts=frozenset()):
    """-> {node id: frozenset of facts holding on entry to the node}

    transfer(node, facts_in, edge_kind) -> facts_out (a frozenset) for the edge of that kind leaving
    the node."""
    IN = {n.id: TOP for n in g.nodes}
    IN[g.entry] = frozenset(entry_facts)
    work = [g.entry]
    rounds = 0
    while work:
        rounds += 1
        if rounds > 200000:
            raise RuntimeError('must_forward does not converge')
        n = work.pop()
        fin = IN[n]
        if fin is TOP:
            continue
        node = g.node(n)
        for d, k in g.succ[n]:
            out = transfer(node, fin, k)
            old = IN[d]
            new = out if old is TOP else (old & out)
            if old is TOP or new != old:
                IN[d] = new
                work.append(d)
    return IN
