"""T2 -- call resolution and call graph, plus small AST query helpers.

Receivers are typed by the role table of DESIGN.md 3.1 (no type checker is available):
formatter (``….output`` or a local assigned from one), feature (loop variable over
``features``), layer hook (user code), result callbacks.
"""
import ast

from .cfg import calls_in, walk_no_defs
from .srcmodel import PKG, ClassInfo, FuncInfo, dotted

LAYER_HOOKS = ('setUp', 'tearDown', 'testSetUp', 'testTearDown')
FORMATTER_CLASSES = ('formatter.OutputFormatter', 'formatter.ColorfulOutputFormatter',
                     'formatter.SubunitOutputFormatter', 'formatter.SubunitV2OutputFormatter')
XML_WRAPPER = 'formatter.XMLOutputFormattingWrapper'


def call_name(call):
    return dotted(call.func)


def own_stmts(func_node):
    """All statements of a function body, not descending into nested defs."""
    for n in walk_no_defs(func_node):
        if isinstance(n, ast.stmt) and n is not func_node:
            yield n


def own_nodes(func_node):
    return walk_no_defs(func_node)


def own_calls(func_node):
    return [n for n in walk_no_defs(func_node) if isinstance(n, ast.Call)]


def parent_chain(node):
    out = []
    while getattr(node, '_parent', None) is not None:
        node = node._parent
        out.append(node)
    return out


def enclosing_stmt(node):
    while node is not None and not isinstance(node, ast.stmt):
        node = getattr(node, '_parent', None)
    return node


def local_assignments(func_node):
    """name -> list of value expressions assigned to the plain local *name* (flow-insensitive)."""
    out = {}
    for n in walk_no_defs(func_node):
        if isinstance(n, ast.Assign):
            for t in n.targets:
                if isinstance(t, ast.Name):
                    out.setdefault(t.id, []).append(n.value)
                elif isinstance(t, (ast.Tuple, ast.List)):
                    for i, e in enumerate(t.elts):
                        if isinstance(e, ast.Name):
                            out.setdefault(e.id, []).append(('unpack', i, n.value))
        elif isinstance(n, ast.AugAssign) and isinstance(n.target, ast.Name):
            out.setdefault(n.target.id, []).append(n.value)
        elif isinstance(n, ast.AnnAssign) and isinstance(n.target, ast.Name) and n.value:
            out.setdefault(n.target.id, []).append(n.value)
        elif isinstance(n, ast.NamedExpr) and isinstance(n.target, ast.Name):
            out.setdefault(n.target.id, []).append(n.value)
    return out


def sources_of(expr, assigns, depth=4, _seen=None):
    """Dotted atoms an expression derives from, expanding plain locals through their
    assignments (flow-insensitive, bounded)."""
    out = set()
    _seen = _seen if _seen is not None else set()
    for n in ast.walk(expr) if isinstance(expr, ast.AST) else []:
        d = dotted(n) if isinstance(n, (ast.Attribute, ast.Name)) else None
        if d is None:
            continue
        if isinstance(getattr(n, '_parent', None), ast.Attribute) and \
                n._parent.value is n and dotted(n._parent) is not None:
            continue            # only maximal chains
        headname = d.split('.')[0]
        if '.' not in d and d in assigns and depth > 0 and d not in _seen:
            _seen.add(d)
            for v in assigns[d]:
                if isinstance(v, tuple):
                    v = v[2]
                out |= sources_of(v, assigns, depth - 1, _seen)
            out.add(d)
        elif '.' in d and headname in assigns and depth > 0 and headname not in _seen:
            out.add(d)
            for v in assigns[headname]:
                if isinstance(v, tuple):
                    v = v[2]
                base = dotted(v) if isinstance(v, ast.AST) else None
                if base:
                    out.add(base + d[len(headname):])
        else:
            out.add(d)
    return out


class CallGraph:
    def __init__(self, model):
        self.model = model
        self._callees = {}
        self._formatters = None

    # ---- roles -------------------------------------------------------------------------
    def formatter_classes(self):
        if self._formatters is None:
            self._formatters = [self.model.cls(q) for q in FORMATTER_CLASSES
                                if self._has_cls(q)]
        return self._formatters

    def _has_cls(self, q):
        try:
            self.model.cls(q)
            return True
        except Exception:
            return False

    def feature_classes(self):
        base = self.model.cls('feature.Feature')
        return [base] + self.model.subclasses(base)

    def is_formatter_receiver(self, expr, fi):
        d = dotted(expr)
        if d is None:
            return False
        if d.endswith('.output') or d == 'output':
            if d == 'output' or '.' in d:
                if d != 'output':
                    return True
        if '.' not in d:
            # local assigned from an ``….output`` expression (or a parameter named output)
            f = fi
            while f is not None:
                for v in local_assignments(f.node).get(d, []):
                    if isinstance(v, ast.AST) and (dotted(v) or '').endswith('.output'):
                        return True
                if d in [a.arg for a in f.node.args.args] and d == 'output':
                    return True
                f = f.parent
        return False

    def is_layer_hook_call(self, call):
        f = call.func
        if not isinstance(f, ast.Attribute) or f.attr not in LAYER_HOOKS:
            return False
        r = f.value
        if isinstance(r, ast.Name) and r.id in ('self', 'cls'):
            return False
        if isinstance(r, ast.Call) and dotted(r.func) == 'super':
            return False
        d = dotted(r) or ''
        if d.startswith('unittest.') or d.endswith('TestCase') or d.endswith('TestResult'):
            return False
        return True

    # ---- resolution --------------------------------------------------------------------
    def resolve_call(self, call, fi):
        """-> list of FuncInfo (possibly several for role-typed receivers), or a string for an
        external/unknown callee."""
        m = self.model
        f = call.func
        d = dotted(f)
        if d is None:
            return 'opaque'
        parts = d.split('.')
        # nested function / closure variable
        if len(parts) == 1:
            scope = fi
            while scope is not None:
                q = scope.qualname.split('.', 1)[1] + '.' + d
                if q in scope.module.functions:
                    return [scope.module.functions[q]]
                # method value bound to a local: store = unselected.append
                scope = scope.parent
            r = m.lookup(m.resolve_dotted(fi.module, d))
            if isinstance(r, FuncInfo):
                return [r]
            if isinstance(r, ClassInfo):
                init = m.find_method(r, '__init__')
                return [init] if init else 'class:' + r.qualname
            return m.resolve_dotted(fi.module, d)
        # self.m()
        if parts[0] == 'self' and len(parts) == 2 and fi is not None:
            owner = fi
            while owner is not None and owner.cls is None:
                owner = owner.parent
            if owner is not None:
                targets = []
                meth = m.find_method(owner.cls, parts[1])
                if meth:
                    targets.append(meth)
                for sc in m.subclasses(owner.cls):
                    if parts[1] in sc.methods:
                        targets.append(sc.methods[parts[1]])
                if targets:
                    return targets
                return 'self.' + parts[1]
        # formatter role
        if isinstance(f, ast.Attribute) and self.is_formatter_receiver(f.value, fi):
            out = []
            for c in self.formatter_classes():
                meth = m.find_method(c, f.attr)
                if meth and meth not in out:
                    out.append(meth)
            if self._has_cls(XML_WRAPPER):
                w = m.cls(XML_WRAPPER)
                if f.attr in w.methods:
                    out.append(w.methods[f.attr])
            return out or 'formatter.' + f.attr
        # feature role
        if isinstance(f, ast.Attribute) and isinstance(f.value, ast.Name) and \
                f.value.id == 'feature':
            out = []
            for c in self.feature_classes():
                if f.attr in c.methods:
                    out.append(c.methods[f.attr])
            return out or 'feature.' + f.attr
        # self.runner.<method>
        if d.startswith('self.runner.') and len(parts) == 3 and self._has_cls('runner.Runner'):
            meth = m.find_method(m.cls('runner.Runner'), parts[2])
            if meth:
                return [meth]
        canon = m.resolve_dotted(fi.module, d)
        r = m.lookup(canon)
        if isinstance(r, FuncInfo):
            return [r]
        if isinstance(r, ClassInfo):
            init = m.find_method(r, '__init__')
            return [init] if init else 'class:' + r.qualname
        return canon

    def canonical(self, call, fi):
        """Canonical dotted name of the callee ('os.unlink', 'zope.testrunner.find.import_name')."""
        d = dotted(call.func)
        if d is None:
            return None
        return self.model.resolve_dotted(fi.module, d)

    def callees(self, fi):
        if fi.qualname not in self._callees:
            out = []
            for c in own_calls(fi.node):
                out.append((c, self.resolve_call(c, fi)))
            # nested functions defined here are considered called (closures returned/used)
            self._callees[fi.qualname] = out
        return self._callees[fi.qualname]

    def reachable_funcs(self, roots, include_nested=True):
        """Transitive closure over resolved in-package callees."""
        seen = {}
        work = list(roots)
        while work:
            fi = work.pop()
            if fi.qualname in seen:
                continue
            seen[fi.qualname] = fi
            for c, r in self.callees(fi):
                if isinstance(r, list):
                    work.extend(r)
            if include_nested:
                pre = fi.qualname.split('.', 1)[1] + '.'
                for q, f2 in fi.module.functions.items():
                    if q.startswith(pre) and f2.parent is fi:
                        work.append(f2)
        return seen
