"""T0 -- normalisation of a module before analysis: helper extraction is undone.

The rules are anchored at the functions of the tree they were written against (the table
``anchors/functions.json``, frozen by tools/mkanchors.py).  "Extract method" is the most common
behaviour-preserving edit, and it moves the constructs a rule looks for out of the anchored
function.  Every function of a module that is NOT in the table (so: introduced after the rules
were written), is defined in the same module / class as its caller and is called directly
(``helper(...)``, ``self.helper(...)``) is therefore inlined at its call sites before the source
model is built:

* parameters are bound (simple arguments and single-use arguments are substituted, the others
  are assigned to fresh locals), the helper's locals are alpha-renamed where they clash;
* ``return`` in tail position becomes an assignment to the call's target and the guard-clause
  form ``if c: return a`` / rest becomes ``if c: ... else: rest``;
* a ``return`` that is not in tail position (inside a loop) is encoded as a labelled jump:
  ``with __inline_block__K:`` around the body and ``__inline_return__K`` as the jump statement;
  sa.cfg gives both their control-flow meaning, syntactic rules see through them;
* afterwards: tuple assignments are split, tests on substituted constants are folded,
  ``getattr(x, 'name')`` becomes ``x.name``, locals bound once to a pure expression inside the
  inlined region are propagated, and records of flags (namedtuples introduced by the edit) are
  replaced by one local per field.

On the tree the table was frozen from every function is known, so the transformation is the
identity there.  A helper that cannot be inlined (generator, recursion, *args) is left alone.
"""
import ast
import copy
import json
import os

_TABLE = None
BLOCK = '__inline_block__'
JUMP = '__inline_return__'


def table():
    global _TABLE
    if _TABLE is None:
        p = os.path.join(os.path.dirname(os.path.abspath(__file__)), '..', 'anchors', 'functions.json')
        with open(p) as f:
            _TABLE = json.load(f)
    return _TABLE


class NotTail(Exception):
    pass


# ---------------------------------------------------------------------------------------------
# small helpers

def _walk_no_nested(node):
    """walk without entering nested function / class definitions and lambdas"""
    todo = list(ast.iter_child_nodes(node))
    while todo:
        n = todo.pop()
        yield n
        if isinstance(n, (ast.FunctionDef, ast.AsyncFunctionDef, ast.ClassDef, ast.Lambda)):
            continue
        todo.extend(ast.iter_child_nodes(n))


def _stmts_walk(stmts):
    for s in stmts:
        yield s
        yield from _walk_no_nested(s)


def _contains_return(stmts):
    return any(isinstance(n, ast.Return) for n in _stmts_walk(stmts))


def _is_doc(st):
    return isinstance(st, ast.Expr) and isinstance(st.value, ast.Constant) and \
        isinstance(st.value.value, str)


def _simple(e):
    if isinstance(e, (ast.Name, ast.Constant)):
        return True
    if isinstance(e, ast.Attribute):
        return _simple(e.value)
    return False


def _pure(e):
    if _simple(e):
        return True
    if isinstance(e, ast.Tuple):
        return all(_pure(x) for x in e.elts)
    if isinstance(e, ast.Subscript) and isinstance(e.ctx, ast.Load):
        # a read like xs[0] / d[k]: evaluating it twice inside one expression means the same
        return _pure(e.value) and _pure(e.slice)
    return False


def _terminates(stmts):
    """every path through the statement list ends in return / raise"""
    if not stmts:
        return False
    s = stmts[-1]
    if isinstance(s, (ast.Return, ast.Raise)):
        return True
    if isinstance(s, ast.If):
        return _terminates(s.body) and _terminates(s.orelse)
    if isinstance(s, ast.With):
        return _terminates(s.body)
    if isinstance(s, ast.Try) and not s.finalbody:
        return (_terminates(s.orelse) if s.orelse else _terminates(s.body)) and \
            all(_terminates(h.body) for h in s.handlers)
    return False


def _names_in(node):
    return {n.id for n in ast.walk(node) if isinstance(n, ast.Name)}


def _comp_names(fn):
    """names bound only as comprehension targets (their own scope)"""
    out = set()
    for n in _stmts_walk(fn.body):
        if isinstance(n, ast.comprehension):
            out |= {x.id for x in ast.walk(n.target) if isinstance(x, ast.Name)}
    return out


def _stored_names(fn, comps=True):
    """names bound in the body of *fn* (its locals), nested scopes excluded"""
    out = set()
    glob = set()
    skip = set()
    if not comps:
        for n in _stmts_walk(fn.body):
            if isinstance(n, ast.comprehension):
                skip |= {id(x) for x in ast.walk(n.target)}
    for n in _stmts_walk(fn.body):
        if id(n) in skip:
            continue
        if isinstance(n, ast.Name) and isinstance(n.ctx, (ast.Store, ast.Del)):
            out.add(n.id)
        elif isinstance(n, ast.ExceptHandler) and n.name:
            out.add(n.name)
        elif isinstance(n, (ast.FunctionDef, ast.AsyncFunctionDef, ast.ClassDef)):
            out.add(n.name)
        elif isinstance(n, (ast.Import, ast.ImportFrom)):
            for a in n.names:
                out.add((a.asname or a.name).split('.')[0])
        elif isinstance(n, (ast.Global, ast.Nonlocal)):
            glob |= set(n.names)
    # comprehension targets live in their own scope, but renaming them is harmless
    return out - glob


def _generator_shape(fn, allow_yield_from=False):
    """None when the generator can be inlined into a consuming for loop, else the reason"""
    for n in _stmts_walk(fn.body):
        if isinstance(n, ast.YieldFrom) and not allow_yield_from:
            return 'yield from'
        if isinstance(n, ast.Return) and n.value is not None:
            return 'return with a value'

    def check(stmts, protected):
        for s_ in stmts:
            if isinstance(s_, ast.Expr) and isinstance(s_.value, ast.Yield):
                if protected:
                    return 'yield inside try / with'
                continue
            if any(isinstance(x, ast.Yield) for x in ast.walk(s_)) and \
                    not isinstance(s_, (ast.If, ast.For, ast.While, ast.With, ast.Try)):
                return 'yield used as an expression'
            if isinstance(s_, (ast.FunctionDef, ast.AsyncFunctionDef, ast.ClassDef)):
                continue
            for fld in ('body', 'orelse', 'finalbody'):
                sub = getattr(s_, fld, None)
                if isinstance(sub, list) and sub and isinstance(sub[0], ast.stmt):
                    r = check(sub, protected or isinstance(s_, (ast.With, ast.Try)))
                    if r:
                        return r
            for h in getattr(s_, 'handlers', None) or []:
                r = check(h.body, True)
                if r:
                    return r
        return None
    return check(fn.body, False)


def _body_to_expr(stmts):
    """the value a side-effect free helper returns, as ONE expression:
         return e                                  -> e
         if c: return a ; <rest>                   -> a if c else <rest>
         if c: return a  else: return b            -> a if c else b
         x = <expr> ; <rest>   (x bound once)      -> <rest> with x replaced (x read once, or value pure)
    None if the body has any other shape."""
    if not stmts:
        return None
    st = stmts[0]
    if isinstance(st, ast.Return):
        return st.value if st.value is not None and len(stmts) == 1 else None
    if isinstance(st, ast.If):
        a = _body_to_expr(st.body)
        if a is None:
            return None
        b = _body_to_expr(st.orelse) if st.orelse else _body_to_expr(stmts[1:])
        if b is None or (st.orelse and len(stmts) > 1):
            return None
        return ast.copy_location(ast.IfExp(test=st.test, body=a, orelse=b), st)
    if isinstance(st, ast.Assign) and len(st.targets) == 1 and isinstance(st.targets[0], ast.Name):
        x = st.targets[0].id
        rest = _body_to_expr(stmts[1:])
        if rest is None:
            return None
        rest = copy.deepcopy(rest)
        reads = [n for n in ast.walk(rest) if isinstance(n, ast.Name) and n.id == x]
        if any(isinstance(n.ctx, ast.Store) for n in reads):
            return None
        if len(reads) > 1 and not _pure(st.value) and not _no_call(st.value):
            return None

        class T(ast.NodeTransformer):
            def visit_Name(self, n):
                if n.id == x and isinstance(n.ctx, ast.Load):
                    return ast.copy_location(copy.deepcopy(st.value), n)
                return n
        return T().visit(rest)
    return None


def _no_call(e):
    return not any(isinstance(n, (ast.Call, ast.Await, ast.Yield, ast.YieldFrom, ast.NamedExpr))
                   for n in ast.walk(e))


def _class_default(x):
    """``name = <constant>`` in a class body"""
    return isinstance(x, ast.Assign) and len(x.targets) == 1 and isinstance(x.targets[0], ast.Name) \
        and isinstance(x.value, ast.Constant)


def _desugar_with(tree, known):
    """``with C(args) as x: BODY`` for a class C introduced by the edit whose __enter__ only
    returns self and whose __exit__ never swallows (every return is False / None) and does not
    look at the exception it is given:   x = C(args); try: BODY finally: x.__exit__(None, None, None)
    -- the statement the ``with`` is defined to mean; the Inliner then dissolves the object"""
    kc = set(known.get('classes', ()))
    cms = {}
    for st in tree.body:
        if not (isinstance(st, ast.ClassDef) and st.name not in kc):
            continue
        meths = {x.name: x for x in st.body if isinstance(x, ast.FunctionDef)}
        en, ex = meths.get('__enter__'), meths.get('__exit__')
        if en is None or ex is None or en.decorator_list or ex.decorator_list:
            continue
        body = [x for x in en.body if not _is_doc(x)]
        me = en.args.args[0].arg if en.args.args else None
        if not (len(body) == 1 and isinstance(body[0], ast.Return) and
                isinstance(body[0].value, ast.Name) and body[0].value.id == me):
            continue
        ok = True
        for n in _stmts_walk(ex.body):
            if isinstance(n, ast.Return) and n.value is not None and not (
                    isinstance(n.value, ast.Constant) and not n.value.value):
                ok = False
            if isinstance(n, ast.Name) and n.id in [a.arg for a in ex.args.args[1:]]:
                ok = False
        if ok and len(ex.args.args) == 4 and not ex.args.vararg and not ex.args.kwarg:
            cms[st.name] = st
    if not cms:
        return tree
    counter = [0]

    def rewrite(stmts):
        out = []
        for s in stmts:
            for fld in ('body', 'orelse', 'finalbody'):
                sub = getattr(s, fld, None)
                if isinstance(sub, list) and sub and isinstance(sub[0], ast.stmt):
                    setattr(s, fld, rewrite(sub))
            for h in getattr(s, 'handlers', None) or []:
                h.body = rewrite(h.body)
            if isinstance(s, ast.With) and len(s.items) == 1:
                it = s.items[0]
                c = it.context_expr
                if isinstance(c, ast.Call) and isinstance(c.func, ast.Name) and c.func.id in cms and \
                        (it.optional_vars is None or isinstance(it.optional_vars, ast.Name)):
                    counter[0] += 1
                    v = it.optional_vars.id if it.optional_vars is not None else '__cm_%d' % counter[0]
                    asg = ast.copy_location(ast.Assign(targets=[ast.Name(id=v, ctx=ast.Store())],
                                                       value=c), s)
                    call = ast.Call(func=ast.Attribute(value=ast.Name(id=v, ctx=ast.Load()),
                                                       attr='__exit__', ctx=ast.Load()),
                                    args=[ast.Constant(value=None)] * 3, keywords=[])
                    fin = ast.copy_location(ast.Expr(value=call), s)
                    tr = ast.copy_location(ast.Try(body=s.body, handlers=[], orelse=[],
                                                   finalbody=[fin]), s)
                    out.extend([asg, tr])
                    continue
            out.append(s)
        return out
    for n in ast.walk(tree):
        if isinstance(n, (ast.FunctionDef, ast.AsyncFunctionDef)):
            n.body = rewrite(n.body)
    ast.fix_missing_locations(tree)
    return tree


class _Rename(ast.NodeTransformer):
    def __init__(self, ren, subst):
        self.ren = ren
        self.subst = subst

    def visit_Name(self, n):
        if n.id in self.subst and isinstance(n.ctx, ast.Load):
            return ast.copy_location(copy.deepcopy(self.subst[n.id]), n)
        if n.id in self.ren:
            n.id = self.ren[n.id]
        return n

    def visit_arg(self, n):
        if n.arg in self.ren:
            n.arg = self.ren[n.arg]
        return n

    def visit_ExceptHandler(self, n):
        if n.name and n.name in self.ren:
            n.name = self.ren[n.name]
        self.generic_visit(n)
        return n

    def visit_FunctionDef(self, n):
        if n.name in self.ren:
            n.name = self.ren[n.name]
        self.generic_visit(n)
        return n


# ---------------------------------------------------------------------------------------------
# the inliner

class Inliner:
    def __init__(self, tree, modname, known):
        self.tree = tree
        self.modname = modname
        self.known = known
        self.counter = 0
        self.inlined = []          # (helper qualname, host qualname)
        self.left = []             # (helper qualname, reason)
        self.removed = []
        self.renames = []          # (new name, base name) of the host being processed
        self.funcs = {}            # module-level name -> FunctionDef (unknown, eligible)
        self.methods = {}          # (class name, method name) -> FunctionDef
        self.class_bases = {}
        self.static = set()
        self.generators = set()
        self.splice_only = set()
        self.objclasses = {}       # unknown plain classes: name -> ClassDef
        self.dissolved = set()
        self.objs = {}             # object locals of the host being processed: var -> class
        self.local_funcs = {}      # closures defined in the host being processed (unknown): name -> def
        self.records = _record_types(tree, known)
        self._collect()
        self.unique_methods = self._unique_methods()

    # -- module level, including the bodies of module-level if / try / with blocks
    def _blocks(self):
        out = []

        def rec(body):
            out.append(body)
            for st in body:
                if isinstance(st, (ast.If, ast.Try, ast.With)):
                    for fld in ('body', 'orelse', 'finalbody'):
                        sub = getattr(st, fld, None)
                        if isinstance(sub, list) and sub:
                            rec(sub)
                    for h in getattr(st, 'handlers', None) or []:
                        rec(h.body)
        rec(self.tree.body)
        return out

    def _toplevel(self):
        return [st for blk in self._blocks() for st in blk]

    # -- discovery
    def _collect(self):
        kf = set(self.known.get('functions', ()))
        for st in self._toplevel():
            if isinstance(st, ast.FunctionDef) and st.name not in kf:
                if self._eligible(st, st.name):
                    self.funcs[st.name] = st
            elif isinstance(st, ast.ClassDef):
                self.class_bases[st.name] = [b.id for b in st.bases if isinstance(b, ast.Name)]
                simple = st.name not in set(self.known.get('classes', ())) and \
                    not st.decorator_list and not st.keywords and \
                    all(isinstance(b, ast.Name) and b.id == 'object' for b in st.bases) and \
                    all(_is_doc(x) or isinstance(x, (ast.FunctionDef, ast.Pass)) or _class_default(x)
                        for x in st.body)
                if simple:
                    self.objclasses[st.name] = st
                for s2 in st.body:
                    if isinstance(s2, ast.FunctionDef) and \
                            '%s.%s' % (st.name, s2.name) not in kf:
                        if s2.name.startswith('__') and s2.name.endswith('__') and not (
                                simple and s2.name in ('__init__', '__call__', '__enter__', '__exit__')):
                            continue
                        if self._eligible(s2, '%s.%s' % (st.name, s2.name), method=True):
                            self.methods[(st.name, s2.name)] = s2

    def _unique_methods(self):
        """new methods whose name is defined by exactly one class of the module and is not an
        attribute of a builtin container / string / file type: ``x.name(...)`` can only mean it"""
        import io
        count = {}
        for st in self._toplevel():
            if isinstance(st, ast.ClassDef):
                for s2 in st.body:
                    if isinstance(s2, ast.FunctionDef):
                        count[s2.name] = count.get(s2.name, 0) + 1
        out = {}
        for (cname, mname), fn in self.methods.items():
            if count.get(mname) != 1 or mname.startswith('__') or id(fn) in self.static or \
                    id(fn) in self.generators:
                continue
            if any(hasattr(t, mname) for t in (dict, list, set, str, bytes, tuple, io.StringIO,
                                               io.BytesIO, int, object)):
                continue
            out[mname] = fn
        return out

    def _eligible(self, fn, qn, method=False):
        decos = [ast.unparse(d) for d in fn.decorator_list]
        if any(d not in ('staticmethod',) for d in decos):
            self.left.append((qn, 'decorated'))
            return False
        if 'staticmethod' in decos:
            self.static.add(id(fn))
        a = fn.args
        if a.vararg or a.kwarg:
            self.left.append((qn, 'star parameters'))
            return False
        for n in _stmts_walk(fn.body):
            if isinstance(n, (ast.Await, ast.Nonlocal)):
                self.left.append((qn, 'await / nonlocal'))
                return False
        if any(isinstance(n, (ast.Yield, ast.YieldFrom)) for n in _stmts_walk(fn.body)):
            why = _generator_shape(fn)
            if why == 'yield from' and _generator_shape(fn, allow_yield_from=True) is None:
                # can still be spliced where the host says ``yield from helper(...)`` as a statement
                # (its yields stay yields); not where a for loop consumes it
                self.splice_only.add(id(fn))
            elif why:
                self.left.append((qn, 'generator: ' + why))
                return False
            self.generators.add(id(fn))
        if method and 'staticmethod' not in decos and not (a.posonlyargs + a.args):
            return False
        return True

    def _method_of(self, cls, name, seen=()):
        if cls is None or cls in seen:
            return None
        if (cls, name) in self.methods:
            return self.methods[(cls, name)]
        # defined (known) in the class itself: not a helper
        for st in self._toplevel():
            if isinstance(st, ast.ClassDef) and st.name == cls:
                if any(isinstance(s, ast.FunctionDef) and s.name == name for s in st.body):
                    return None
        for b in self.class_bases.get(cls, ()):
            r = self._method_of(b, name, seen + (cls,))
            if r is not None:
                return r
        return None

    def _resolve(self, call, host, gen=False):
        """(helper FunctionDef, receiver expr or None) for a call in *host* = (fn, class name)"""
        h, recv = self._resolve_any(call, host)
        if h is not None and (id(h) in self.generators) != gen:
            return None, None
        return h, recv

    def _resolve_any(self, call, host):
        fn, cls, shadow = host
        f = call.func
        if isinstance(f, ast.Name) and f.id in self.local_funcs:
            return self.local_funcs[f.id], None
        if isinstance(f, ast.Name) and f.id in self.funcs and f.id not in shadow:
            return self.funcs[f.id], None
        if isinstance(f, ast.Name) and f.id in self.objs:
            h = self.methods.get((self.objs[f.id], '__call__'))
            return (h, f) if h is not None else (None, None)
        if isinstance(f, ast.Attribute) and isinstance(f.value, ast.Name) and f.value.id in self.objs:
            h = self.methods.get((self.objs[f.value.id], f.attr))
            return (h, f.value) if h is not None else (None, None)
        if isinstance(f, ast.Attribute) and _simple(f.value) and f.attr in self.unique_methods and \
                not (isinstance(f.value, ast.Name) and f.value.id in ('self', 'cls')):
            return self.unique_methods[f.attr], f.value
        if isinstance(f, ast.Attribute) and isinstance(f.value, ast.Name) and cls is not None:
            first = (fn.args.posonlyargs + fn.args.args)
            if first and f.value.id == first[0].arg and first[0].arg in ('self', 'cls'):
                h = self._method_of(cls, f.attr)
                if h is not None:
                    return h, f.value
        return None, None

    # -- driver
    def run(self):
        if not self.funcs and not self.methods and not self._has_new_closures():
            # nothing to inline; loops over a literal are still written out
            for n in ast.walk(self.tree):
                if isinstance(n, ast.FunctionDef) and _has_literal_loop(n):
                    _simplify_function(n, self.records)
            ast.fix_missing_locations(self.tree)
            return self.tree
        for st in self._toplevel():
            if isinstance(st, ast.FunctionDef):
                self._host(st, None)
            elif isinstance(st, ast.ClassDef):
                for s2 in st.body:
                    if isinstance(s2, ast.FunctionDef):
                        self._host(s2, st.name)
        self._drop_unused()
        ast.fix_missing_locations(self.tree)
        return self.tree

    def _has_new_closures(self):
        kf = set(self.known.get('functions', ()))

        def scan(fn, qual):
            for n in _stmts_walk(fn.body):
                if isinstance(n, ast.FunctionDef):
                    q = '%s.%s' % (qual, n.name)
                    if q not in kf:
                        return True
                    if scan(n, q):
                        return True
            return False
        for st in self._toplevel():
            if isinstance(st, ast.FunctionDef) and scan(st, st.name):
                return True
            if isinstance(st, ast.ClassDef):
                for s2 in st.body:
                    if isinstance(s2, ast.FunctionDef) and scan(s2, '%s.%s' % (st.name, s2.name)):
                        return True
        return False

    def _host(self, fn, cls):
        is_helper = any(fn is h for h in list(self.funcs.values()) + list(self.methods.values()))
        self._host_fn(fn, cls, (fn,) if is_helper else ())

    def _host_fn(self, fn, cls, stack):
        names = _names_in(fn) | {a.arg for a in ast.walk(fn) if isinstance(a, ast.arg)}
        if not hasattr(fn, '_orig_names'):
            fn._orig_names = set(names)
        shadow = _stored_names(fn) | {a.arg for a in fn.args.posonlyargs + fn.args.args +
                                      fn.args.kwonlyargs}
        host = (fn, cls, shadow)
        before = len(self.inlined)
        outer_renames, self.renames = self.renames, []
        hostname = fn.name if cls is None else '%s.%s' % (cls, fn.name)
        # closures introduced by the edit: defined in this function, only ever called directly
        outer_local, self.local_funcs = self.local_funcs, dict(self.local_funcs)
        kf = set(self.known.get('functions', ()))
        qual = getattr(fn, '_qual', hostname)
        nested = [n for n in _stmts_walk(fn.body) if isinstance(n, ast.FunctionDef)]
        for nd in nested:
            nd._qual = '%s.%s' % (qual, nd.name)
            if nd._qual in kf or any(nd is x for x in stack):
                continue
            refs = [n for n in ast.walk(fn) if isinstance(n, ast.Name) and n.id == nd.name]
            called = {id(c.func) for c in ast.walk(fn) if isinstance(c, ast.Call)}
            stores = [n for n in refs if not isinstance(n.ctx, ast.Load)]
            if stores or not refs or any(id(r) not in called for r in refs):
                continue
            if any(isinstance(x, (ast.Yield, ast.YieldFrom)) for x in _stmts_walk(nd.body)):
                continue
            # the closure must not bind a name that it also reads from the host (late binding)
            if self._eligible(nd, nd._qual):
                self.local_funcs[nd.name] = nd
        self._expr_helpers(fn, host, hostname, stack)
        fn.body = self._stmts(fn.body, host, names, stack, fn.name if cls is None else
                              '%s.%s' % (cls, fn.name))
        outer_objs, self.objs = self.objs, {}
        for _ in range(3):
            found = self._object_locals(fn)
            if not found:
                break
            self.objs = found
            fn.body = self._stmts(fn.body, host, names, stack, hostname)
            if not self._dissolve_objects(fn, host, names, stack, hostname):
                break
        self.objs = outer_objs
        # nested definitions are hosts too
        for n in _stmts_walk(fn.body):
            if isinstance(n, ast.FunctionDef):
                self._host_fn(n, None, stack)
        # closures whose every call was inlined are gone
        for nm, nd in list(self.local_funcs.items()):
            if nm in outer_local and outer_local[nm] is nd:
                continue
            if not any(isinstance(n, ast.Name) and n.id == nm for n in ast.walk(fn)):
                for blk in _blocks(fn.body):
                    blk[:] = [x for x in blk if x is not nd] or [ast.Pass()]
        self.local_funcs = outer_local
        if len(self.inlined) > before or _has_literal_loop(fn):
            _simplify_function(fn, self.records)
            _coalesce(fn, self.renames)
        self.renames = outer_renames

    # -- objects of classes introduced by the edit that never leave the function
    def _class_fields(self, cname):
        out = set()
        for x in self.objclasses[cname].body:
            if _class_default(x):
                out.add(x.targets[0].id)
            if isinstance(x, ast.FunctionDef) and (x.args.posonlyargs + x.args.args):
                me = (x.args.posonlyargs + x.args.args)[0].arg
                for n in ast.walk(x):
                    if isinstance(n, ast.Attribute) and isinstance(n.ctx, ast.Store) and \
                            isinstance(n.value, ast.Name) and n.value.id == me:
                        out.add(n.attr)
        return out

    def _object_locals(self, fn):
        if not self.objclasses:
            return {}
        parents = {}
        for n in [fn] + list(_stmts_walk(fn.body)):
            for c in ast.iter_child_nodes(n):
                parents[id(c)] = n
        cands, bad = {}, set()
        for n in _stmts_walk(fn.body):
            if not isinstance(n, ast.Name):
                continue
            par = parents.get(id(n))
            if isinstance(n.ctx, ast.Store):
                if isinstance(par, ast.Assign) and len(par.targets) == 1 and par.targets[0] is n and \
                        isinstance(par.value, ast.Call) and isinstance(par.value.func, ast.Name) and \
                        par.value.func.id in self.objclasses and n.id not in cands:
                    cands[n.id] = par.value.func.id
                else:
                    bad.add(n.id)
        for n in _stmts_walk(fn.body):
            if isinstance(n, ast.Name) and n.id in cands and isinstance(n.ctx, ast.Load):
                cname = cands[n.id]
                par = parents.get(id(n))
                gp = parents.get(id(par))
                ok = False
                if isinstance(par, ast.Call) and par.func is n:
                    ok = (cname, '__call__') in self.methods
                elif isinstance(par, ast.Attribute) and par.value is n:
                    if isinstance(gp, ast.Call) and gp.func is par:
                        ok = (cname, par.attr) in self.methods
                    else:
                        ok = par.attr in self._class_fields(cname)
                if not ok:
                    bad.add(n.id)
            elif isinstance(n, ast.Name) and n.id in cands and isinstance(n.ctx, ast.Del):
                bad.add(n.id)
        return {v: c for v, c in cands.items() if v not in bad}

    def _dissolve_objects(self, fn, host, names, stack, hostname):
        """once every method call on an object local is inlined: the constructor call becomes
        the body of __init__ and the fields become locals"""
        done = False
        for v, cname in list(self.objs.items()):
            parents = {}
            for n in [fn] + list(_stmts_walk(fn.body)):
                for c in ast.iter_child_nodes(n):
                    parents[id(c)] = n
            fields = self._class_fields(cname)
            ctor = None
            ok = True
            for n in _stmts_walk(fn.body):
                if isinstance(n, ast.Name) and n.id == v:
                    par = parents.get(id(n))
                    if isinstance(n.ctx, ast.Store):
                        ctor = par
                    elif not (isinstance(par, ast.Attribute) and par.value is n and par.attr in fields):
                        ok = False
            if not ok or ctor is None:
                continue
            init = self.methods.get((cname, '__init__'))
            has_init = any(isinstance(x, ast.FunctionDef) and x.name == '__init__'
                           for x in self.objclasses[cname].body)
            new = []
            if has_init:
                if init is None:
                    continue
                call = ast.Call(func=ast.Attribute(value=ast.Name(id=v, ctx=ast.Load()),
                                                   attr='__init__', ctx=ast.Load()),
                                args=ctor.value.args, keywords=ctor.value.keywords)
                est = ast.copy_location(ast.Expr(value=call), ctor)
                ast.copy_location(call, ctor)
                got = self._expand(est, call, init, call.func.value, 'direct', host, names, stack,
                                   hostname)
                if got is None:
                    continue
                new = got[0]
            elif ctor.value.args or ctor.value.keywords:
                continue
            defaults = [ast.copy_location(ast.Assign(
                targets=[ast.Attribute(value=ast.Name(id=v, ctx=ast.Load()), attr=x.targets[0].id,
                                       ctx=ast.Store())], value=copy.deepcopy(x.value)), ctor)
                for x in self.objclasses[cname].body if _class_default(x)]
            new = defaults + list(new)
            if not _replace_stmt(fn, ctor, new):
                continue
            allnames = _names_in(fn)
            fmap = {}
            for f in sorted(fields):
                nm = '%s_%s' % (v, f.lstrip('_'))
                while nm in allnames:
                    nm += '_'
                fmap[f] = nm
                names.add(nm)

            class T(ast.NodeTransformer):
                def visit_Attribute(self, n):
                    self.generic_visit(n)
                    if isinstance(n.value, ast.Name) and n.value.id == v and n.attr in fmap:
                        return ast.copy_location(ast.Name(id=fmap[n.attr], ctx=n.ctx), n)
                    return n
            T().visit(fn)
            self.dissolved.add(cname)
            done = True
        return done

    # -- ``C(a, b)`` where C (introduced by the edit) only stores its arguments and defines
    # __call__: the object is the closure  def c(x): <body of __call__ over a, b>
    def _callable_objects(self, st, names):
        pre = []
        for call in [n for n in ast.walk(st) if isinstance(n, ast.Call)]:
            if not (isinstance(call.func, ast.Name) and call.func.id in self.objclasses):
                continue
            cdef = self.objclasses[call.func.id]
            meths = {x.name: x for x in cdef.body if isinstance(x, ast.FunctionDef)}
            if set(meths) - {'__init__', '__call__'} or '__call__' not in meths:
                continue
            callm = meths['__call__']
            if callm.decorator_list or callm.args.vararg or callm.args.kwarg or \
                    not callm.args.args or (cdef.name, '__call__') not in self.methods:
                continue
            fields = {}
            init = meths.get('__init__')
            if init is not None:
                env = self._bind(init, call, ast.Name(id='__self__', ctx=ast.Load())) \
                    if (cdef.name, '__init__') in self.methods else None
                if env is None:
                    continue
                me = init.args.args[0].arg
                ok = True
                for x in init.body:
                    if _is_doc(x):
                        continue
                    if isinstance(x, ast.Assign) and len(x.targets) == 1 and \
                            isinstance(x.targets[0], ast.Attribute) and \
                            isinstance(x.targets[0].value, ast.Name) and x.targets[0].value.id == me \
                            and isinstance(x.value, ast.Name) and x.value.id in env and \
                            isinstance(env[x.value.id], ast.Name):
                        fields[x.targets[0].attr] = env[x.value.id]
                    else:
                        ok = False
                if not ok:
                    continue
            elif call.args or call.keywords:
                continue
            me = callm.args.args[0].arg
            body = [copy.deepcopy(x) for x in callm.body if not _is_doc(x)]
            bad = [False]

            class T(ast.NodeTransformer):
                def visit_Attribute(self, n):
                    self.generic_visit(n)
                    if isinstance(n.value, ast.Name) and n.value.id == me:
                        if n.attr in fields and isinstance(n.ctx, ast.Load):
                            return ast.copy_location(copy.deepcopy(fields[n.attr]), n)
                        bad[0] = True
                    return n

                def visit_Name(self, n):
                    if n.id == me:
                        pass
                    return n
            body = [T().visit(x) for x in body]
            if bad[0] or any(isinstance(n, ast.Name) and n.id == me for x in body for n in ast.walk(x)):
                continue
            nm = self._fresh(cdef.name.strip('_').lower() or 'closure', names)
            args = copy.deepcopy(callm.args)
            args.args = args.args[1:]
            fd = ast.FunctionDef(name=nm, args=args, body=body or [ast.Pass()], decorator_list=[],
                                 returns=None, type_comment=None)
            ast.copy_location(fd, st)
            for n in ast.walk(fd):
                if not hasattr(n, 'lineno') and isinstance(n, (ast.stmt, ast.expr, ast.arg)):
                    ast.copy_location(n, st)
            pre.append(fd)
            _replace_expr(st, call, ast.copy_location(ast.Name(id=nm, ctx=ast.Load()), call))
            self.inlined.append((cdef.name, 'closure'))
            self.dissolved.add(cdef.name)
        return pre

    # -- expression-bodied helpers: ``def h(a): return <expr>`` is substituted wherever it is called
    def _expr_helpers(self, fn, host, hostname, stack):
        inl = self

        class T(ast.NodeTransformer):
            changed = False

            def visit_Call(self, n):
                self.generic_visit(n)
                h, recv = inl._resolve(n, host)
                if h is None or any(h is s_ for s_ in stack):
                    return n
                body = [s_ for s_ in h.body if not _is_doc(s_)]
                if len(body) > 1 and id(n) in direct:
                    return n        # the whole value of a statement: the statement inliner keeps the if/else shape
                whole = _body_to_expr(body)
                if whole is None:
                    return n
                env = inl._bind(h, n, recv)
                if env is None:
                    return n
                expr = copy.deepcopy(whole)
                uses = {}
                for x in ast.walk(expr):
                    if isinstance(x, ast.Name) and isinstance(x.ctx, ast.Load):
                        uses[x.id] = uses.get(x.id, 0) + 1
                bound = {x.id for x in ast.walk(expr) if isinstance(x, ast.Name) and
                         isinstance(x.ctx, ast.Store)}
                for p_, v in env.items():
                    if p_ in bound:
                        return n
                    if not (_simple(v) or uses.get(p_, 0) <= 1 or _pure(v)):
                        return n
                new = _Rename({}, env).visit(expr)
                T.changed = True
                inl.inlined.append((h.name, hostname))
                return ast.copy_location(new, n)
        for _ in range(6):
            T.changed = False
            direct = {id(st.value) for st in _stmts_walk(fn.body)
                      if isinstance(st, (ast.Assign, ast.Expr, ast.Return, ast.AugAssign, ast.AnnAssign))
                      and isinstance(getattr(st, 'value', None), ast.Call)}
            T().visit(fn)
            if not T.changed:
                break

    def _bind(self, helper, call, recv):
        a = helper.args
        if any(isinstance(x, ast.Starred) for x in call.args) or any(k.arg is None for k in call.keywords):
            return None
        params = [x.arg for x in a.posonlyargs + a.args]
        defaults = dict(zip(params[len(params) - len(a.defaults):], a.defaults))
        for x, d in zip(a.kwonlyargs, a.kw_defaults):
            if d is not None:
                defaults[x.arg] = d
        kwonly = [x.arg for x in a.kwonlyargs]
        env = {}
        pos = list(params)
        if recv is not None and id(helper) not in self.static:
            env[pos.pop(0)] = recv
        if len(call.args) > len(pos):
            return None
        for p_, v in zip(pos, call.args):
            env[p_] = v
        for k in call.keywords:
            if k.arg in env or k.arg not in params + kwonly:
                return None
            env[k.arg] = k.value
        for p_ in pos + kwonly:
            if p_ not in env:
                if p_ not in defaults:
                    return None
                env[p_] = defaults[p_]
        return env

    # -- statement lists
    def _stmts(self, stmts, host, names, stack, hostname):
        out = []
        for st in stmts:
            out.extend(self._stmt(st, host, names, stack, hostname))
        return out

    def _stmt(self, st, host, names, stack, hostname):
        # recurse into compound statements first
        for fld in ('body', 'orelse', 'finalbody'):
            sub = getattr(st, fld, None)
            if isinstance(sub, list) and sub and isinstance(sub[0], ast.stmt) and \
                    not isinstance(st, (ast.FunctionDef, ast.AsyncFunctionDef, ast.ClassDef)):
                setattr(st, fld, self._stmts(sub, host, names, stack, hostname))
        for h in getattr(st, 'handlers', None) or []:
            h.body = self._stmts(h.body, host, names, stack, hostname)
        if isinstance(st, (ast.FunctionDef, ast.AsyncFunctionDef, ast.ClassDef)):
            return [st]
        if isinstance(st, ast.Expr) and isinstance(st.value, ast.YieldFrom) and \
                isinstance(st.value.value, ast.Call):
            h, recv = self._resolve(st.value.value, host, gen=True)
            if h is not None and not any(h is s_ for s_ in stack):
                got = self._instantiate(st, st.value.value, h, recv, host, names, stack, hostname)
                if got is not None:
                    pre, gbody = got
                    k = self.counter = self.counter + 1
                    if _contains_return(gbody):
                        gbody = _encode_jumps(gbody, lambda r: [], k, st)
                    self.inlined.append((h.name, hostname))
                    return pre + gbody
        if isinstance(st, ast.For) and isinstance(st.iter, ast.Call) and not st.orelse:
            h, recv = self._resolve(st.iter, host, gen=True)
            if h is not None and id(h) not in self.splice_only and not any(h is s_ for s_ in stack):
                got = self._expand_generator(st, h, recv, host, names, stack, hostname)
                if got is not None:
                    return got
        pre = []
        if self.objclasses and not isinstance(st, (ast.For, ast.While, ast.If, ast.With, ast.Try)):
            pre.extend(self._callable_objects(st, names))
        for _ in range(12):
            site = self._find_site(st, host, stack)
            if site is None:
                break
            call, helper, recv, how = site
            got = self._expand(st, call, helper, recv, how, host, names, stack, hostname)
            if got is None:
                break
            new_pre, st = got
            pre.extend(new_pre)
            if st is None:
                return pre
        return pre + [st]

    def _find_site(self, st, host, stack):
        """first call of an inlinable helper that is evaluated unconditionally by *st*"""
        def unconditional(expr):
            """calls in evaluation order that are always evaluated when expr is"""
            if isinstance(expr, ast.Call):
                yield from unconditional(expr.func)
                for a in expr.args:
                    yield from unconditional(a)
                for k in expr.keywords:
                    yield from unconditional(k.value)
                yield expr
            elif isinstance(expr, ast.BoolOp):
                yield from unconditional(expr.values[0])
            elif isinstance(expr, ast.IfExp):
                yield from unconditional(expr.test)
            elif isinstance(expr, (ast.Lambda, ast.ListComp, ast.SetComp, ast.DictComp,
                                   ast.GeneratorExp)):
                return
            elif isinstance(expr, ast.AST):
                for c in ast.iter_child_nodes(expr):
                    if isinstance(c, ast.expr):
                        yield from unconditional(c)

        if isinstance(st, ast.Expr):
            roots, direct = [st.value], st.value
        elif isinstance(st, ast.Assign):
            roots, direct = [st.value], st.value
        elif isinstance(st, ast.AugAssign):
            roots, direct = [st.value], None
        elif isinstance(st, ast.AnnAssign) and st.value is not None:
            roots, direct = [st.value], None
        elif isinstance(st, ast.Return) and st.value is not None:
            roots, direct = [st.value], st.value
        elif isinstance(st, ast.If):
            roots, direct = [st.test], None
        elif isinstance(st, ast.Assert):
            roots, direct = [st.test], None
        elif isinstance(st, ast.Raise) and st.exc is not None:
            roots, direct = [st.exc], None
        elif isinstance(st, ast.For):
            roots, direct = [st.iter], None
        elif isinstance(st, ast.With):
            roots, direct = [it.context_expr for it in st.items[:1]], None
        else:
            return None
        for r in roots:
            for c in unconditional(r):
                h, recv = self._resolve(c, host)
                if h is None or any(h is s for s in stack):
                    continue
                if any(isinstance(a, ast.Starred) for a in c.args) or \
                        any(k.arg is None for k in c.keywords):
                    continue
                how = 'direct' if c is direct else 'nested'
                return c, h, recv, how
        return None

    # -- one expansion
    def _fresh(self, base, names):
        if base not in names:
            names.add(base)
            return base
        while True:
            self.counter += 1
            cand = '%s__%d' % (base, self.counter)
            if cand not in names:
                names.add(cand)
                return cand

    def _instantiate(self, st, call, helper, recv, host, names, stack, hostname, target_name=None):
        """(pre statements, body) of the helper with parameters bound and locals renamed"""
        a = helper.args
        env = self._bind(helper, call, recv)
        if env is None:
            return None
        body = [copy.deepcopy(s) for s in helper.body if not _is_doc(s)]
        tmpfn = ast.FunctionDef(name='_', args=a, body=body, decorator_list=[], lineno=0)
        stored = _stored_names(tmpfn, comps=False)
        argnames = set()
        for v in env.values():
            argnames |= _names_in(v)
        stored |= (_comp_names(tmpfn) & argnames)      # would capture a substituted argument
        uses = {}
        in_loop = set()
        for s in body:
            for n in ast.walk(s):
                if isinstance(n, ast.Name) and isinstance(n.ctx, ast.Load):
                    uses[n.id] = uses.get(n.id, 0) + 1
        for n in _stmts_walk(body):
            if isinstance(n, ast.For):
                for part in [n.target] + n.body + n.orelse:
                    in_loop |= _names_in(part)
            elif isinstance(n, (ast.While, ast.ListComp, ast.SetComp, ast.DictComp,
                                ast.GeneratorExp, ast.Lambda, ast.FunctionDef)):
                in_loop |= _names_in(n)
        subst, ren, pre = {}, {}, []
        for p, v in env.items():
            if p not in stored and (_simple(v) or (uses.get(p, 0) == 1 and p not in in_loop) or
                                    (uses.get(p, 0) == 0 and _pure(v))):
                subst[p] = v
            elif p in stored and isinstance(v, ast.Name) and v.id == target_name:
                ren[p] = v.id              # the old value is dead after ``x = helper(x)``
            else:
                nm = self._fresh(p, names)
                ren[p] = nm
                pre.append(ast.copy_location(
                    ast.Assign(targets=[ast.Name(id=nm, ctx=ast.Store())], value=v), st))
        returned = set()
        for n in _stmts_walk(body):
            if isinstance(n, ast.Return) and isinstance(n.value, ast.Name):
                returned.add(n.value.id)
        for nm in sorted(stored):
            if nm in ren or nm in env:
                continue
            if nm == target_name and nm in returned and nm not in \
                    {x for v in env.values() for x in _names_in(v)}:
                ren[nm] = nm               # the local that is returned into the same name
                continue
            ren[nm] = self._fresh(nm, names)
        self.renames.extend((v, k) for k, v in ren.items() if k != v)
        tr = _Rename({k: v for k, v in ren.items() if k != v}, subst)
        body = [tr.visit(s) for s in body]
        # nested helpers inside the inlined body
        wrap = ast.FunctionDef(name='_', args=ast.arguments(posonlyargs=[], args=[], kwonlyargs=[],
                                                            kw_defaults=[], defaults=[]),
                               body=body, decorator_list=[], lineno=0)
        self._expr_helpers(wrap, host, hostname, stack + (helper,))
        body = self._stmts(wrap.body, host, names, stack + (helper,), hostname)
        return pre, body

    def _expand(self, st, call, helper, recv, how, host, names, stack, hostname):
        target_name = None
        if how == 'direct' and isinstance(st, ast.Assign) and len(st.targets) == 1 and \
                isinstance(st.targets[0], ast.Name):
            target_name = st.targets[0].id
        got = self._instantiate(st, call, helper, recv, host, names, stack, hostname, target_name)
        if got is None:
            return None
        pre, body = got
        qn = helper.name
        # the statement that receives the value
        if how == 'nested' or isinstance(st, (ast.AugAssign, ast.AnnAssign)) or \
                (isinstance(st, ast.Assign) and how != 'direct'):
            tmp = self._fresh('%s__value' % helper.name.strip('_'), names)
            ctxkind, target = 'assign', [ast.Name(id=tmp, ctx=ast.Store())]
            _replace_expr(st, call, ast.copy_location(ast.Name(id=tmp, ctx=ast.Load()), call))
            keep = st
        elif isinstance(st, ast.Expr):
            ctxkind, target, keep = 'expr', None, None
        elif isinstance(st, ast.Assign):
            ctxkind, target, keep = 'assign', st.targets, None
        elif isinstance(st, ast.Return):
            ctxkind, target, keep = 'return', None, None
        else:
            return None
        k = self.counter = self.counter + 1

        def on_return(r):
            v = r.value if r.value is not None else ast.Constant(value=None)
            if ctxkind == 'expr':
                return [] if _pure(v) else [ast.copy_location(ast.Expr(value=v), r)]
            if ctxkind == 'assign':
                if len(target) == 1 and isinstance(target[0], ast.Name) and \
                        isinstance(v, ast.Name) and v.id == target[0].id:
                    return []
                return [ast.copy_location(
                    ast.Assign(targets=[copy.deepcopy(t) for t in target], value=v), r)]
            raise AssertionError
        if ctxkind == 'return':
            new = body
            if not _terminates(body):
                new = body + [ast.copy_location(ast.Return(value=ast.Constant(value=None)), st)]
        else:
            falls = ast.copy_location(ast.Return(value=None), st)
            try:
                new = _tail(body + ([falls] if not _terminates(body) else []), on_return)
            except NotTail:
                new = _encode_jumps(body + ([falls] if not _terminates(body) else []),
                                    on_return, k, st)
        if not new:
            new = []
        self.inlined.append((qn, hostname))
        for s in pre + new:
            for n in ast.walk(s):
                if not hasattr(n, 'lineno') and isinstance(n, (ast.stmt, ast.expr)):
                    ast.copy_location(n, st)
        return pre + new, keep

    def _expand_generator(self, st, helper, recv, host, names, stack, hostname):
        """``for T in gen(args): BODY`` -> the generator's body with BODY at every yield"""
        got = self._instantiate(st, st.iter, helper, recv, host, names, stack, hostname)
        if got is None:
            return None
        pre, gbody = got
        k = self.counter = self.counter + 1
        whole = '%s%d' % (JUMP, k)
        need_whole = [False]
        consumer_body = st.body

        def own_jumps(stmts):
            """break / continue statements that belong to the consumer loop"""
            out = []

            def go(n):
                for c in ast.iter_child_nodes(n):
                    if isinstance(c, (ast.For, ast.While, ast.AsyncFor, ast.FunctionDef,
                                      ast.AsyncFunctionDef, ast.ClassDef, ast.Lambda)):
                        # the else part of an inner loop still belongs to the outer one
                        for x in getattr(c, 'orelse', []) or []:
                            if isinstance(x, (ast.Break, ast.Continue)):
                                out.append(x)
                            go(x)
                        continue
                    if isinstance(c, (ast.Break, ast.Continue)):
                        out.append(c)
                    go(c)
            for s_ in stmts:
                if isinstance(s_, (ast.Break, ast.Continue)):
                    out.append(s_)
                elif not isinstance(s_, (ast.For, ast.While, ast.FunctionDef, ast.ClassDef)):
                    go(s_)
                else:
                    for x in getattr(s_, 'orelse', []) or []:
                        if isinstance(x, (ast.Break, ast.Continue)):
                            out.append(x)
                        go(x)
            return out

        has_break = any(isinstance(j, ast.Break) for j in own_jumps(consumer_body))
        has_cont = any(isinstance(j, ast.Continue) for j in own_jumps(consumer_body))
        top_last_loop = gbody[-1] if gbody and isinstance(gbody[-1], (ast.For, ast.While)) and \
            not gbody[-1].orelse else None

        def at_yield(y, loops, tail):
            """statements replacing one ``yield v``; loops = enclosing loops in the generator,
            tail = the yield ends an iteration of the innermost one"""
            v = y.value.value if y.value.value is not None else ast.Constant(value=None)
            assign = ast.copy_location(ast.Assign(targets=[copy.deepcopy(st.target)], value=v), y)
            body = [copy.deepcopy(x) for x in consumer_body]
            jumps = own_jumps(body)
            plain_break = len(loops) == 1 and loops[0] is top_last_loop
            plain_cont = bool(loops) and tail
            kk = None
            for j in jumps:
                if isinstance(j, ast.Break) and not plain_break:
                    need_whole[0] = True
                    j.__class__ = ast.Expr
                    j.value = ast.Name(id=whole, ctx=ast.Load())
                    j._fields = ('value',)
                elif isinstance(j, ast.Continue) and not plain_cont:
                    if kk is None:
                        kk = self.counter = self.counter + 1
                    j.__class__ = ast.Expr
                    j.value = ast.Name(id='%s%d' % (JUMP, kk), ctx=ast.Load())
            if kk is not None:
                blk = ast.With(items=[ast.withitem(context_expr=ast.Name(
                    id='%s%d' % (BLOCK, kk), ctx=ast.Load()), optional_vars=None)], body=body)
                ast.copy_location(blk, y)
                body = [blk]
            return [assign] + body

        def rewrite(stmts, loops, tail):
            out = []
            for i, s_ in enumerate(stmts):
                last = tail and i == len(stmts) - 1
                if isinstance(s_, ast.Expr) and isinstance(s_.value, ast.Yield):
                    out.extend(at_yield(s_, loops, last))
                    continue
                if isinstance(s_, ast.Return):
                    need_whole[0] = True
                    out.append(ast.copy_location(ast.Expr(value=ast.Name(id=whole, ctx=ast.Load())), s_))
                    continue
                if isinstance(s_, (ast.FunctionDef, ast.AsyncFunctionDef, ast.ClassDef)):
                    out.append(s_)
                    continue
                if isinstance(s_, (ast.For, ast.While)):
                    s_.body = rewrite(s_.body, loops + [s_], True)
                    s_.orelse = rewrite(s_.orelse, loops, last)
                elif isinstance(s_, ast.If):
                    s_.body = rewrite(s_.body, loops, last)
                    s_.orelse = rewrite(s_.orelse, loops, last)
                elif isinstance(s_, (ast.With, ast.Try)):
                    pass        # checked by _generator_shape: no yield inside
                out.append(s_)
            return out

        new = rewrite(gbody, [], False)
        if need_whole[0]:
            blk = ast.With(items=[ast.withitem(context_expr=ast.Name(
                id='%s%d' % (BLOCK, k), ctx=ast.Load()), optional_vars=None)], body=new)
            ast.copy_location(blk, st)
            new = [blk]
        self.inlined.append((helper.name, hostname))
        for s_ in pre + new:
            for n in ast.walk(s_):
                if not hasattr(n, 'lineno') and isinstance(n, (ast.stmt, ast.expr)):
                    ast.copy_location(n, st)
        # the consumer's body may call further helpers
        return pre + self._stmts(new, host, names, stack + (helper,), hostname) \
            if False else pre + new

    # -- clean-up
    def _drop_unused(self):
        """a helper all of whose uses were inlined is removed: its effects now belong to its callers"""
        helpers = {id(h): h for h in list(self.funcs.values()) + list(self.methods.values())}
        inlined_names = {h for h, _host in self.inlined}
        refs = {}

        def scan(node, owner):
            for c in ast.iter_child_nodes(node):
                o = c.name if id(c) in helpers else owner
                if isinstance(c, ast.Name):
                    refs.setdefault(c.id, set()).add(o)
                elif isinstance(c, ast.Attribute):
                    refs.setdefault(c.attr, set()).add(o)
                elif isinstance(c, ast.Constant) and isinstance(c.value, str) and c.value.isidentifier():
                    refs.setdefault(c.value, set()).add(o)
                scan(c, o)
        scan(self.tree, None)

        def prune(body):
            out = []
            for st in body:
                if isinstance(st, ast.ClassDef) and self.objclasses.get(st.name) is st and \
                        st.name.startswith('_') and st.name in self.dissolved and \
                        not (refs.get(st.name, set()) - {st.name}) and not any(
                            refs.get(x.name, set()) - {x.name, st.name} for x in st.body
                            if isinstance(x, ast.FunctionDef) and not x.name.startswith('__')):
                    self.removed.append(st.name)
                    continue
                if isinstance(st, ast.FunctionDef) and id(st) in helpers and \
                        st.name.startswith('_') and st.name in inlined_names:
                    if not (refs.get(st.name, set()) - {st.name}):
                        self.removed.append(st.name)
                        continue
                out.append(st)
            return out or [ast.Pass()]
        for _ in range(4):
            n = len(self.removed)
            for blk in self._blocks():
                blk[:] = prune(blk)
            for st in self._toplevel():
                if isinstance(st, ast.ClassDef):
                    st.body = prune(st.body)
            if len(self.removed) == n:
                break
            refs.clear()
            scan(self.tree, None)


def _replace_stmt(root, old, new):
    for n in ast.walk(root):
        for fld in ('body', 'orelse', 'finalbody'):
            sub = getattr(n, fld, None)
            if isinstance(sub, list):
                for i, x in enumerate(sub):
                    if x is old:
                        sub[i:i + 1] = new
                        if not sub and fld == 'body':
                            sub.append(ast.copy_location(ast.Pass(), old))
                        return True
    return False


def _replace_expr(root, old, new):
    for n in ast.walk(root):
        for fld, val in ast.iter_fields(n):
            if val is old:
                setattr(n, fld, new)
                return True
            if isinstance(val, list):
                for i, x in enumerate(val):
                    if x is old:
                        val[i] = new
                        return True
    return False


# ---------------------------------------------------------------------------------------------
# returns

def _tail(stmts, on_return):
    """rewrite a statement list whose returns are all in tail position"""
    out = []
    for i, s in enumerate(stmts):
        rest = stmts[i + 1:]
        if isinstance(s, ast.Return):
            return out + on_return(s)
        if not _contains_return([s]):
            out.append(s)
            continue
        if isinstance(s, ast.If):
            bt, et = _terminates(s.body), _terminates(s.orelse)
            br, er = _contains_return(s.body), _contains_return(s.orelse)
            if not rest:
                s.body = _tail(s.body, on_return) or [ast.copy_location(ast.Pass(), s)]
                s.orelse = _tail(s.orelse, on_return)
            elif bt and not er:
                s.body = _tail(s.body, on_return) or [ast.copy_location(ast.Pass(), s)]
                s.orelse = _tail(s.orelse + rest, on_return)
            elif et and not br:
                s.body = _tail(s.body + rest, on_return) or [ast.copy_location(ast.Pass(), s)]
                s.orelse = _tail(s.orelse, on_return)
            elif bt and et:
                s.body = _tail(s.body, on_return) or [ast.copy_location(ast.Pass(), s)]
                s.orelse = _tail(s.orelse, on_return)
            else:
                s.body = _tail(s.body + [copy.deepcopy(x) for x in rest], on_return) or \
                    [ast.copy_location(ast.Pass(), s)]
                s.orelse = _tail(s.orelse + rest, on_return)
            out.append(s)
            return out
        if isinstance(s, ast.With) and not rest:
            s.body = _tail(s.body, on_return) or [ast.copy_location(ast.Pass(), s)]
            out.append(s)
            return out
        if isinstance(s, ast.Try) and not _contains_return(s.finalbody):
            if s.orelse and _contains_return(s.body):
                raise NotTail()
            hs_term = all(_terminates(h.body) for h in s.handlers)
            main_term = _terminates(s.orelse) if s.orelse else _terminates(s.body)
            if rest and not (hs_term and main_term):
                # the rest runs after whichever part falls through: append it there
                if s.finalbody:
                    raise NotTail()
                for h in s.handlers:
                    if not _terminates(h.body):
                        h.body = h.body + [copy.deepcopy(x) for x in rest]
                if not main_term:
                    if s.orelse or not _contains_return(s.body):
                        s.orelse = s.orelse + rest
                    else:
                        raise NotTail()
            if s.orelse:
                s.orelse = _tail(s.orelse, on_return)
            else:
                s.body = _tail(s.body, on_return) or [ast.copy_location(ast.Pass(), s)]
            for h in s.handlers:
                h.body = _tail(h.body, on_return) or [ast.copy_location(ast.Pass(), h)]
            out.append(s)
            return out
        raise NotTail()
    return out


def _encode_jumps(stmts, on_return, k, at):
    """returns anywhere: labelled block + jump statements (see module docstring)"""
    label = '%s%d' % (JUMP, k)

    class R(ast.NodeTransformer):
        def visit_FunctionDef(self, n):
            return n

        def visit_Lambda(self, n):
            return n

        def visit_Return(self, n):
            jump = ast.copy_location(ast.Expr(value=ast.Name(id=label, ctx=ast.Load())), n)
            return on_return(n) + [jump]

    new = []
    for s in stmts:
        r = R().visit(s)
        new.extend(r if isinstance(r, list) else [r])
    # a trailing jump is a fall-through
    if new and isinstance(new[-1], ast.Expr) and isinstance(new[-1].value, ast.Name) and \
            new[-1].value.id == label:
        new = new[:-1]
    blk = ast.With(items=[ast.withitem(context_expr=ast.Name(id='%s%d' % (BLOCK, k), ctx=ast.Load()),
                                       optional_vars=None)], body=new or [ast.Pass()])
    ast.copy_location(blk, at)
    return [blk]


def is_block(st):
    return isinstance(st, ast.With) and len(st.items) == 1 and \
        isinstance(st.items[0].context_expr, ast.Name) and \
        st.items[0].context_expr.id.startswith(BLOCK)


def block_label(st):
    return st.items[0].context_expr.id[len(BLOCK):]


def jump_label(st):
    if isinstance(st, ast.Expr) and isinstance(st.value, ast.Name) and st.value.id.startswith(JUMP):
        return st.value.id[len(JUMP):]
    return None


# ---------------------------------------------------------------------------------------------
# simplification of a function that received inlined code

class _Fold(ast.NodeTransformer):
    """fold tests on constants, getattr with a constant name, not-not"""

    def visit_Call(self, n):
        self.generic_visit(n)
        if isinstance(n.func, ast.Name) and n.func.id == 'getattr' and len(n.args) == 2 and \
                not n.keywords and isinstance(n.args[1], ast.Constant) and \
                isinstance(n.args[1].value, str) and n.args[1].value.isidentifier():
            return ast.copy_location(ast.Attribute(value=n.args[0], attr=n.args[1].value,
                                                   ctx=ast.Load()), n)
        return n

    def visit_Expr(self, n):
        self.generic_visit(n)
        c = n.value
        # setattr(x, 'name', v) as a statement is the assignment x.name = v
        if isinstance(c, ast.Call) and isinstance(c.func, ast.Name) and c.func.id == 'setattr' and \
                len(c.args) == 3 and not c.keywords and isinstance(c.args[1], ast.Constant) and \
                isinstance(c.args[1].value, str) and c.args[1].value.isidentifier():
            tgt = ast.Attribute(value=c.args[0], attr=c.args[1].value, ctx=ast.Store())
            return ast.copy_location(ast.Assign(targets=[ast.copy_location(tgt, c)], value=c.args[2]), n)
        return n

    def visit_UnaryOp(self, n):
        self.generic_visit(n)
        if isinstance(n.op, ast.Not) and isinstance(n.operand, ast.Constant):
            return ast.copy_location(ast.Constant(value=not n.operand.value), n)
        return n

    def visit_BoolOp(self, n):
        self.generic_visit(n)
        vals = []
        is_and = isinstance(n.op, ast.And)
        for v in n.values:
            if isinstance(v, ast.Constant):
                if bool(v.value) == is_and:
                    continue                     # neutral element
                if all(_pure(x) for x in vals) and isinstance(v.value, bool):
                    vals = [v]                   # what comes before has no effect: the constant
                    break
                vals.append(v)                   # absorbing: nothing after it is evaluated
                break
            vals.append(v)
        if not vals:
            return ast.copy_location(ast.Constant(value=is_and), n)
        if len(vals) == 1:
            return vals[0]
        n.values = vals
        return n

    def visit_IfExp(self, n):
        self.generic_visit(n)
        if isinstance(n.test, ast.Constant):
            return n.body if n.test.value else n.orelse
        return n

    def visit_If(self, n):
        self.generic_visit(n)
        if isinstance(n.test, ast.Constant):
            return (n.body if n.test.value else n.orelse) or None
        return n

    def visit_FunctionDef(self, n):
        self.generic_visit(n)
        return n


def _split_tuple_assign(stmts):
    out = []
    for s in stmts:
        for fld in ('body', 'orelse', 'finalbody'):
            sub = getattr(s, fld, None)
            if isinstance(sub, list) and sub and isinstance(sub[0], ast.stmt) and \
                    not isinstance(s, (ast.FunctionDef, ast.ClassDef)):
                setattr(s, fld, _split_tuple_assign(sub))
        for h in getattr(s, 'handlers', None) or []:
            h.body = _split_tuple_assign(h.body)
        if isinstance(s, ast.Assign) and len(s.targets) == 1 and \
                isinstance(s.targets[0], ast.Tuple) and isinstance(s.value, ast.Tuple) and \
                len(s.targets[0].elts) == len(s.value.elts) and \
                not any(isinstance(e, ast.Starred) for e in s.targets[0].elts + s.value.elts):
            tn = set()
            for t in s.targets[0].elts:
                tn |= _names_in(t)
            if not (tn & _names_in(s.value)) and getattr(s, '_inl', True):
                for t, v in zip(s.targets[0].elts, s.value.elts):
                    out.append(ast.copy_location(ast.Assign(targets=[t], value=v), s))
                continue
        out.append(s)
    return out


def _record_types(tree, known):
    """{name: [fields]} of namedtuples defined at module level that the table does not know"""
    out = {}
    kn = set(known.get('names', ()))
    for st in tree.body:
        if isinstance(st, ast.Assign) and len(st.targets) == 1 and isinstance(st.targets[0], ast.Name) \
                and isinstance(st.value, ast.Call) and st.targets[0].id not in kn:
            f = st.value.func
            fname = f.id if isinstance(f, ast.Name) else f.attr if isinstance(f, ast.Attribute) else ''
            if fname == 'namedtuple' and len(st.value.args) >= 2:
                fl = st.value.args[1]
                if isinstance(fl, (ast.List, ast.Tuple)) and all(
                        isinstance(e, ast.Constant) and isinstance(e.value, str) for e in fl.elts):
                    out[st.targets[0].id] = [e.value for e in fl.elts]
                elif isinstance(fl, ast.Constant) and isinstance(fl.value, str):
                    out[st.targets[0].id] = fl.value.replace(',', ' ').split()
        elif isinstance(st, ast.ClassDef) and st.name not in kn and any(
                (isinstance(b, ast.Name) and b.id == 'NamedTuple') or
                (isinstance(b, ast.Attribute) and b.attr == 'NamedTuple') for b in st.bases):
            fields = [s.target.id for s in st.body if isinstance(s, ast.AnnAssign) and
                      isinstance(s.target, ast.Name)]
            if fields and not any(isinstance(s, ast.FunctionDef) for s in st.body):
                out[st.name] = fields
    return out


def _scalar_replace(fn, records):
    """locals that only ever hold a record built by a namedtuple introduced by the edit and are
    only read through ``.field`` become one local per field"""
    if not records:
        return
    cands = {}
    bad = set()
    parents = {}
    for n in [fn] + list(_stmts_walk(fn.body)):
        for c in ast.iter_child_nodes(n):
            parents[id(c)] = n
    for n in _stmts_walk(fn.body):
        if isinstance(n, ast.Name):
            par = parents.get(id(n))
            if isinstance(n.ctx, ast.Store):
                ok = isinstance(par, ast.Assign) and len(par.targets) == 1 and par.targets[0] is n \
                    and isinstance(par.value, ast.Call) and isinstance(par.value.func, ast.Name) \
                    and par.value.func.id in records and \
                    not any(isinstance(a, ast.Starred) for a in par.value.args) and \
                    all(k.arg for k in par.value.keywords)
                if ok:
                    cands.setdefault(n.id, set()).add(par.value.func.id)
                else:
                    bad.add(n.id)
            elif isinstance(n.ctx, ast.Load):
                if not (isinstance(par, ast.Attribute) and par.value is n and
                        isinstance(par.ctx, ast.Load)):
                    bad.add(n.id)
            else:
                bad.add(n.id)
    todo = {v: next(iter(ts)) for v, ts in cands.items() if v not in bad and len(ts) == 1}
    if not todo:
        return
    allnames = _names_in(fn)

    def fld(v, f):
        return '%s_%s' % (v, f) if '%s_%s' % (v, f) not in allnames else '%s__%s' % (v, f)

    class T(ast.NodeTransformer):
        def visit_Attribute(self, n):
            self.generic_visit(n)
            if isinstance(n.value, ast.Name) and n.value.id in todo and \
                    n.attr in records[todo[n.value.id]]:
                return ast.copy_location(ast.Name(id=fld(n.value.id, n.attr), ctx=ast.Load()), n)
            return n

        def visit_Assign(self, n):
            self.generic_visit(n)
            t = n.targets[0]
            if len(n.targets) == 1 and isinstance(t, ast.Name) and t.id in todo and \
                    isinstance(n.value, ast.Call):
                fields = records[todo[t.id]]
                vals = dict(zip(fields, n.value.args))
                for k in n.value.keywords:
                    vals[k.arg] = k.value
                if set(vals) != set(fields):
                    return n
                return [ast.copy_location(ast.Assign(
                    targets=[ast.Name(id=fld(t.id, f), ctx=ast.Store())], value=vals[f]), n)
                    for f in fields]
            return n
    # a record read through an unknown field keeps the variable
    for n in _stmts_walk(fn.body):
        if isinstance(n, ast.Attribute) and isinstance(n.value, ast.Name) and n.value.id in todo \
                and n.attr not in records[todo[n.value.id]]:
            todo.pop(n.value.id)
            if not todo:
                return
    T().visit(fn)


def _tuple_replace(fn):
    """a local that only ever holds a tuple display of fixed length or None (the result slot of an
    inlined "find the header and return its fields, else None" helper), is only tested against None
    and otherwise unpacked whole, becomes one local per element plus a boolean:
        t = (a, b) / t = None / if t is not None / x, y = t
      ->  t__0 = a; t__1 = b; t__set = True / t__set = False / if t__set / x = t__0; y = t__1"""
    parents = {}
    for n in [fn] + list(_stmts_walk(fn.body)):
        for c in ast.iter_child_nodes(n):
            parents[id(c)] = n
    info, bad = {}, set()
    for n in _stmts_walk(fn.body):
        if not isinstance(n, ast.Name):
            continue
        par = parents.get(id(n))
        if isinstance(n.ctx, ast.Store):
            if isinstance(par, ast.Assign) and len(par.targets) == 1 and par.targets[0] is n:
                v = par.value
                if isinstance(v, ast.Tuple) and not any(isinstance(e, ast.Starred) for e in v.elts):
                    info.setdefault(n.id, set()).add(len(v.elts))
                    continue
                if isinstance(v, ast.Constant) and v.value is None:
                    info.setdefault(n.id, set())
                    continue
            bad.add(n.id)
        elif isinstance(n.ctx, ast.Load):
            ok = False
            if isinstance(par, ast.Compare) and par.left is n and len(par.ops) == 1 and \
                    isinstance(par.ops[0], (ast.Is, ast.IsNot)) and \
                    isinstance(par.comparators[0], ast.Constant) and par.comparators[0].value is None:
                ok = True
            if isinstance(par, ast.Assign) and par.value is n and len(par.targets) == 1 and \
                    isinstance(par.targets[0], ast.Tuple) and \
                    not any(isinstance(e, ast.Starred) for e in par.targets[0].elts):
                info.setdefault(n.id, set()).add(len(par.targets[0].elts))
                ok = True
            if not ok:
                bad.add(n.id)
        else:
            bad.add(n.id)
    todo = {v: next(iter(ls)) for v, ls in info.items() if v not in bad and len(ls) == 1}
    if not todo:
        return False
    allnames = _names_in(fn)

    def part(v, i):
        nm = '%s__%s' % (v, i)
        while nm in allnames:
            nm += '_'
        return nm

    class T(ast.NodeTransformer):
        def visit_Compare(self, n):
            self.generic_visit(n)
            if isinstance(n.left, ast.Name) and n.left.id in todo and len(n.ops) == 1 and \
                    isinstance(n.ops[0], (ast.Is, ast.IsNot)) and \
                    isinstance(n.comparators[0], ast.Constant) and n.comparators[0].value is None:
                flag = ast.copy_location(ast.Name(id=part(n.left.id, 'set'), ctx=ast.Load()), n)
                if isinstance(n.ops[0], ast.Is):
                    return ast.copy_location(ast.UnaryOp(op=ast.Not(), operand=flag), n)
                return flag
            return n

        def visit_Assign(self, n):
            self.generic_visit(n)
            t = n.targets[0]
            if len(n.targets) == 1 and isinstance(t, ast.Name) and t.id in todo:
                if isinstance(n.value, ast.Tuple):
                    out = [ast.copy_location(ast.Assign(
                        targets=[ast.Name(id=part(t.id, i), ctx=ast.Store())], value=e), n)
                        for i, e in enumerate(n.value.elts)]
                    out.append(ast.copy_location(ast.Assign(
                        targets=[ast.Name(id=part(t.id, 'set'), ctx=ast.Store())],
                        value=ast.Constant(value=True)), n))
                    return out
                return ast.copy_location(ast.Assign(
                    targets=[ast.Name(id=part(t.id, 'set'), ctx=ast.Store())],
                    value=ast.Constant(value=False)), n)
            if len(n.targets) == 1 and isinstance(t, ast.Tuple) and isinstance(n.value, ast.Name) and \
                    n.value.id in todo:
                return [ast.copy_location(ast.Assign(targets=[e], value=ast.Name(
                    id=part(n.value.id, i), ctx=ast.Load())), n) for i, e in enumerate(t.elts)]
            return n
    T().visit(fn)
    ast.fix_missing_locations(fn)
    return True


def _copy_back(fn):
    """``t__1 = nfail`` ... ``nfail = t__1`` with t__1 bound exactly once to a plain name that is not
    re-bound in between by anything else: reads of t__1 are replaced by that name (and the resulting
    ``nfail = nfail`` disappears)"""
    stores, vals = {}, {}
    simple = set()
    for n in _stmts_walk(fn.body):
        if isinstance(n, ast.Assign) and len(n.targets) == 1 and isinstance(n.targets[0], ast.Name):
            stores[n.targets[0].id] = stores.get(n.targets[0].id, 0) + 1
            vals[n.targets[0].id] = n.value
            simple.add(id(n.targets[0]))
    for n in _stmts_walk(fn.body):
        if isinstance(n, ast.Name) and isinstance(n.ctx, (ast.Store, ast.Del)) and id(n) not in simple:
            stores[n.id] = stores.get(n.id, 0) + 2
    env = {k: v for k, v in vals.items() if '__' in k and stores.get(k) == 1 and isinstance(v, ast.Name)}
    if not env:
        return

    class T(ast.NodeTransformer):
        def visit_Name(self, n):
            if isinstance(n.ctx, ast.Load) and n.id in env:
                return ast.copy_location(ast.Name(id=env[n.id].id, ctx=ast.Load()), n)
            return n
    T().visit(fn)
    _drop_self_assign(fn)


def _fix_empty(node):
    for n in ast.walk(node):
        for fld in ('body',):
            sub = getattr(n, fld, None)
            if isinstance(sub, list) and not sub and isinstance(
                    n, (ast.If, ast.For, ast.While, ast.With, ast.Try, ast.FunctionDef,
                        ast.ExceptHandler, ast.ClassDef)):
                n.body = [ast.Pass(lineno=getattr(n, 'lineno', 0), col_offset=0)]


def _unroll_literal_loops(stmts):
    """``for T in (e1, e2, ...): BODY`` over a literal of at most 12 elements, BODY without
    break / continue: the iterations are written out"""
    out = []
    for s in stmts:
        for fld in ('body', 'orelse', 'finalbody'):
            sub = getattr(s, fld, None)
            if isinstance(sub, list) and sub and isinstance(sub[0], ast.stmt) and \
                    not isinstance(s, (ast.FunctionDef, ast.ClassDef)):
                setattr(s, fld, _unroll_literal_loops(sub))
        for h in getattr(s, 'handlers', None) or []:
            h.body = _unroll_literal_loops(h.body)
        if isinstance(s, ast.For) and isinstance(s.iter, (ast.Tuple, ast.List)) and not s.orelse and \
                len(s.iter.elts) <= 24 and not any(isinstance(e, ast.Starred) for e in s.iter.elts):
            s.body = _continue_to_guard(s.body)
        if isinstance(s, ast.For) and isinstance(s.iter, (ast.Tuple, ast.List)) and not s.orelse and \
                len(s.iter.elts) <= 24 and not any(isinstance(e, ast.Starred) for e in s.iter.elts) and \
                not any(isinstance(n, (ast.Break, ast.Continue)) for n in _stmts_walk(s.body)):
            for e in s.iter.elts:
                a = ast.copy_location(ast.Assign(targets=[copy.deepcopy(s.target)], value=e), s)
                a._unrolled = True
                out.append(a)
                out.extend(copy.deepcopy(x) for x in s.body)
            continue
        out.append(s)
    return out


def _continue_to_guard(body):
    """``if c: continue`` at the top level of a loop body becomes ``if not c: <rest of the body>``
    (only when that removes every continue of the loop)"""
    def conv(stmts):
        for i, st in enumerate(stmts):
            if isinstance(st, ast.If) and not st.orelse and len(st.body) == 1 and \
                    isinstance(st.body[0], ast.Continue):
                t = st.test
                nt = t.operand if isinstance(t, ast.UnaryOp) and isinstance(t.op, ast.Not) else \
                    ast.copy_location(ast.UnaryOp(op=ast.Not(), operand=t), t)
                rest = conv(stmts[i + 1:])
                if not rest:
                    return stmts[:i]
                return stmts[:i] + [ast.copy_location(ast.If(test=nt, body=rest, orelse=[]), st)]
        return stmts
    new = conv(list(body))
    if any(isinstance(n, ast.Continue) for n in _stmts_walk(new)):
        return body
    return new or [ast.Pass()]


def _has_literal_loop(fn):
    return any(isinstance(n, ast.For) and isinstance(n.iter, (ast.Tuple, ast.List)) and not n.orelse
               and len(n.iter.elts) <= 24 and
               not any(isinstance(x, ast.Break) for x in _stmts_walk(n.body))
               for n in _stmts_walk(fn.body))


def _forward_substitute(fn):
    """``x = e`` (from an unrolled loop) followed directly by a simple statement that reads x
    once: e is put in its place -- for the names all of whose reads in the function are of this
    kind"""
    loads, assigns, good = {}, {}, {}
    for n in _stmts_walk(fn.body):
        if isinstance(n, ast.Name) and isinstance(n.ctx, ast.Load):
            loads[n.id] = loads.get(n.id, 0) + 1
        elif isinstance(n, ast.Name):
            assigns[n.id] = assigns.get(n.id, 0) + 1

    def lists(node):
        for fld in ('body', 'orelse', 'finalbody'):
            sub = getattr(node, fld, None)
            if isinstance(sub, list) and sub and isinstance(sub[0], ast.stmt):
                yield sub
                for s_ in sub:
                    if not isinstance(s_, (ast.FunctionDef, ast.ClassDef)):
                        yield from lists(s_)
        for h in getattr(node, 'handlers', None) or []:
            yield from lists(h)

    def candidate(stmts, i):
        s_ = stmts[i]
        if not (isinstance(s_, ast.Assign) and getattr(s_, '_unrolled', False) and
                len(s_.targets) == 1 and isinstance(s_.targets[0], ast.Name)):
            return None
        if i + 1 >= len(stmts):
            return None
        nxt = stmts[i + 1]
        if not isinstance(nxt, (ast.Expr, ast.Assign, ast.AugAssign, ast.Return)):
            return None
        x = s_.targets[0].id
        rd = [n for n in ast.walk(nxt) if isinstance(n, ast.Name) and n.id == x and
              isinstance(n.ctx, ast.Load)]
        return (x, rd[0]) if len(rd) == 1 else None
    for stmts in lists(fn):
        for i in range(len(stmts)):
            c = candidate(stmts, i)
            if c:
                good[c[0]] = good.get(c[0], 0) + 1
    ok = {x for x, k in good.items() if loads.get(x, 0) == k and assigns.get(x, 0) == k}
    if not ok:
        return
    for stmts in list(lists(fn)):
        i = 0
        while i < len(stmts):
            c = candidate(stmts, i)
            if c and c[0] in ok:
                _replace_expr(stmts[i + 1], c[1], stmts[i].value)
                del stmts[i]
                i = max(i - 1, 0)
                continue
            i += 1


def _propagate_unrolled(fn):
    """block-local forward propagation of the bindings an unrolled loop leaves behind
    (``label = 'Stdout:'; content = stdout; ...``): reads of the bound name are replaced by the
    (pure) value until the name -- or a name the value mentions -- is bound again; bindings that are
    never read afterwards are dropped.  Loops are not entered."""
    def stored(node):
        return {n.id for n in ast.walk(node) if isinstance(n, ast.Name) and
                isinstance(n.ctx, (ast.Store, ast.Del))}

    def subst(node, env):
        if not env:
            return
        class T(ast.NodeTransformer):
            def visit_Name(self, n):
                if isinstance(n.ctx, ast.Load) and n.id in env:
                    return ast.copy_location(copy.deepcopy(env[n.id]), n)
                return n

            def visit_FunctionDef(self, n):
                return n
            visit_Lambda = visit_ClassDef = visit_FunctionDef
        for fld, val in ast.iter_fields(node):
            if isinstance(val, ast.expr):
                setattr(node, fld, T().visit(val))
            elif isinstance(val, list):
                for i, x in enumerate(val):
                    if isinstance(x, ast.expr):
                        val[i] = T().visit(x)
                    elif isinstance(x, (ast.keyword, ast.withitem)):
                        subst(x, env)

    def block(stmts, env):
        env = dict(env)
        for st in stmts:
            if isinstance(st, (ast.For, ast.While, ast.FunctionDef, ast.ClassDef, ast.AsyncFor)):
                killed = stored(st)
                for k in list(env):
                    if k in killed or (_names_in(env[k]) & killed):
                        del env[k]
                if isinstance(st, (ast.For, ast.While)):
                    # a binding that the loop does not touch is invariant inside the loop; the
                    # bindings made inside the body are propagated within the body
                    if env:
                        subst_expr_field(st, 'iter' if isinstance(st, ast.For) else 'test', env)
                    block(st.body, env)
                    block(st.orelse, env)
                continue
            if isinstance(st, ast.If):
                subst_expr_field(st, 'test', env)
                block(st.body, env)
                block(st.orelse, env)
            elif isinstance(st, (ast.With, ast.Try)):
                for fld in ('body', 'orelse', 'finalbody'):
                    block(getattr(st, fld, []) or [], env)
                for h in getattr(st, 'handlers', []) or []:
                    block(h.body, env)
            else:
                if isinstance(st, ast.Assign) and getattr(st, '_unrolled', False):
                    subst_expr_field(st, 'value', env)
                else:
                    subst(st, env)
            killed = stored(st)
            for k in list(env):
                if k in killed or (_names_in(env[k]) & killed):
                    del env[k]
            if isinstance(st, ast.Assign) and getattr(st, '_unrolled', False) and \
                    len(st.targets) == 1 and isinstance(st.targets[0], ast.Name) and _pure(st.value):
                env[st.targets[0].id] = st.value

    def subst_expr_field(node, fld, env):
        class T(ast.NodeTransformer):
            def visit_Name(self, n):
                if isinstance(n.ctx, ast.Load) and n.id in env:
                    return ast.copy_location(copy.deepcopy(env[n.id]), n)
                return n
        setattr(node, fld, T().visit(getattr(node, fld)))
    block(fn.body, {})
    # drop unrolled bindings whose name is not read before it is bound again
    def prune(stmts):
        i = 0
        while i < len(stmts):
            st = stmts[i]
            for fld in ('body', 'orelse', 'finalbody'):
                sub = getattr(st, fld, None)
                if isinstance(sub, list) and sub and isinstance(sub[0], ast.stmt) and \
                        not isinstance(st, (ast.FunctionDef, ast.ClassDef)):
                    prune(sub)
            for h in getattr(st, 'handlers', []) or []:
                prune(h.body)
            if isinstance(st, ast.Assign) and getattr(st, '_unrolled', False) and len(st.targets) == 1 \
                    and isinstance(st.targets[0], ast.Name) and _pure(st.value):
                x = st.targets[0].id
                dead = True
                for later in stmts[i + 1:]:
                    rd = any(isinstance(n, ast.Name) and n.id == x and isinstance(n.ctx, ast.Load)
                             for n in ast.walk(later))
                    if rd:
                        dead = False
                        break
                    if isinstance(later, ast.Assign) and any(
                            isinstance(t, ast.Name) and t.id == x for t in later.targets):
                        break
                else:
                    # end of the block: dead only if the name is not read anywhere else in the function
                    dead = not any(isinstance(n, ast.Name) and n.id == x and isinstance(n.ctx, ast.Load)
                                   for n in _stmts_walk(fn.body))
                if dead:
                    del stmts[i]
                    continue
            i += 1
    prune(fn.body)


def _mark_unrolled_split(stmts):
    """tuple assignments produced by unrolling are split and the parts stay marked"""
    out = []
    for s in stmts:
        for fld in ('body', 'orelse', 'finalbody'):
            sub = getattr(s, fld, None)
            if isinstance(sub, list) and sub and isinstance(sub[0], ast.stmt) and \
                    not isinstance(s, (ast.FunctionDef, ast.ClassDef)):
                setattr(s, fld, _mark_unrolled_split(sub))
        for h in getattr(s, 'handlers', None) or []:
            h.body = _mark_unrolled_split(h.body)
        if isinstance(s, ast.Assign) and getattr(s, '_unrolled', False) and \
                isinstance(s.targets[0], ast.Tuple) and isinstance(s.value, ast.Tuple) and \
                len(s.targets[0].elts) == len(s.value.elts):
            tn = set()
            for t in s.targets[0].elts:
                tn |= _names_in(t)
            if not (tn & _names_in(s.value)):
                for t, v in zip(s.targets[0].elts, s.value.elts):
                    a = ast.copy_location(ast.Assign(targets=[t], value=v), s)
                    a._unrolled = True
                    out.append(a)
                continue
        out.append(s)
    return out


def _simplify_function(fn, records):
    fn.body = _unroll_literal_loops(fn.body)
    fn.body = _mark_unrolled_split(fn.body)
    for _ in range(3):
        _forward_substitute(fn)
    fn.body = _split_tuple_assign(fn.body)
    _propagate_unrolled(fn)
    _Fold().visit(fn)
    _fix_empty(fn)
    _scalar_replace(fn, records)
    if _tuple_replace(fn):
        _copy_back(fn)
    _unswitch_loops(fn)
    _fuse_try_flags(fn)
    _drop_dead_generated(fn)
    _coalesce_unpack_copies(fn)
    _propagate(fn)
    _alias_propagate(fn)
    _fix_empty(fn)


def _fuse_try_flags(fn):
    """``try: A  except E: F = False  else: B; F = True`` directly followed by ``if F: C else: D``
    where the flag F is read nowhere else:  C is appended to the branches that set F true and D to
    those that set it false, the flag disappears.  (No finally clause: C / D must stay after it.)"""
    loads = {}
    for n in _stmts_walk(fn.body):
        if isinstance(n, ast.Name) and isinstance(n.ctx, ast.Load):
            loads[n.id] = loads.get(n.id, 0) + 1

    def flag_store(st):
        if isinstance(st, ast.Assign) and len(st.targets) == 1 and isinstance(st.targets[0], ast.Name) \
                and isinstance(st.value, ast.Constant) and isinstance(st.value.value, bool):
            return st.targets[0].id, st.value.value
        return None

    def rewrite(stmts):
        i = 0
        while i < len(stmts):
            st = stmts[i]
            for fld in ('body', 'orelse', 'finalbody'):
                sub = getattr(st, fld, None)
                if isinstance(sub, list) and sub and isinstance(sub[0], ast.stmt) and \
                        not isinstance(st, (ast.FunctionDef, ast.ClassDef)):
                    rewrite(sub)
            for h in getattr(st, 'handlers', None) or []:
                rewrite(h.body)
            nxt = stmts[i + 1] if i + 1 < len(stmts) else None
            if isinstance(st, ast.Try) and not st.finalbody and st.handlers and isinstance(nxt, ast.If):
                t = nxt.test
                neg = isinstance(t, ast.UnaryOp) and isinstance(t.op, ast.Not)
                f = t.operand if neg else t
                if isinstance(f, ast.Name) and loads.get(f.id) == 1:
                    branches = [h.body for h in st.handlers]
                    if st.orelse:
                        branches.append(st.orelse)
                    elif st.body and flag_store(st.body[-1]):
                        st.orelse = [st.body.pop()]
                        branches.append(st.orelse)
                    else:
                        branches = None
                    vals = None
                    if branches is not None:
                        vals = [flag_store(b[-1]) if b else None for b in branches]
                    stores_elsewhere = False
                    if vals and all(v is not None and v[0] == f.id for v in vals):
                        inside = {id(b[-1]) for b in branches}
                        for n in _stmts_walk(fn.body):
                            if isinstance(n, ast.Assign) and any(
                                    isinstance(x, ast.Name) and x.id == f.id for x in n.targets) and \
                                    id(n) not in inside:
                                stores_elsewhere = True
                        if not stores_elsewhere:
                            for b, (_nm, v) in zip(branches, vals):
                                b.pop()
                                taken = nxt.body if (v != neg) else nxt.orelse
                                b.extend(copy.deepcopy(x) for x in taken)
                                if not b:
                                    b.append(ast.copy_location(ast.Pass(), st))
                            del stmts[i + 1]
                            continue
            i += 1
    rewrite(fn.body)


def _unswitch_loops(fn):
    """``for x in I: PRE; if c: A else: B`` with a loop-invariant, call-free condition c (no name
    it mentions is stored in the loop) is ``if c: for x in I: PRE; A  else: for x in I: PRE; B`` --
    the shape "two variants of one loop" has before somebody merges them through a dispatch"""
    def stored(node):
        return {n.id for n in ast.walk(node) if isinstance(n, ast.Name) and
                isinstance(n.ctx, (ast.Store, ast.Del))}

    def visit(block):
        for i, st in enumerate(list(block)):
            for fld in ('body', 'orelse', 'finalbody'):
                sub = getattr(st, fld, None)
                if isinstance(sub, list) and sub and isinstance(sub[0], ast.stmt) and \
                        not isinstance(st, (ast.FunctionDef, ast.ClassDef)):
                    visit(sub)
            for h in getattr(st, 'handlers', None) or []:
                visit(h.body)
            if isinstance(st, ast.For) and not st.orelse and st.body and isinstance(st.body[-1], ast.If) \
                    and st.body[-1].orelse:
                sw = st.body[-1]
                c = sw.test
                if any(isinstance(x, (ast.Call, ast.Await, ast.NamedExpr, ast.Subscript)) for x in ast.walk(c)):
                    continue
                if not any(isinstance(x, ast.Attribute) for x in ast.walk(c)):
                    continue
                if _names_in(c) & stored(st):
                    continue
                if not (getattr(sw, '_inl', False) or any(getattr(x, '_inl', False) for x in ast.walk(sw))):
                    # only undo what the normalisation itself produced (a devirtualised call)
                    pass
                pre = st.body[:-1]
                a = ast.copy_location(ast.For(target=copy.deepcopy(st.target), iter=copy.deepcopy(st.iter),
                                              body=copy.deepcopy(pre) + sw.body, orelse=[]), st)
                b = ast.copy_location(ast.For(target=copy.deepcopy(st.target), iter=copy.deepcopy(st.iter),
                                              body=copy.deepcopy(pre) + sw.orelse, orelse=[]), st)
                j = [k for k, x in enumerate(block) if x is st][0]
                block[j] = ast.fix_missing_locations(ast.copy_location(
                    ast.If(test=c, body=[a], orelse=[b]), st))
    visit(fn.body)


def _drop_dead_generated(fn):
    """``x = <pure>`` where x was introduced by the normalisation and is never read"""
    orig = getattr(fn, '_orig_names', None)
    if orig is None:
        return
    loads = {n.id for n in ast.walk(fn) if isinstance(n, ast.Name) and isinstance(n.ctx, ast.Load)}
    done = False
    for n in _stmts_walk(fn.body):
        if isinstance(n, ast.Assign) and len(n.targets) == 1 and isinstance(n.targets[0], ast.Name) and \
                n.targets[0].id not in orig and n.targets[0].id not in loads and _pure(n.value):
            n._dead = True
            done = True
    if done:
        _remove_dead(fn)


def _coalesce_unpack_copies(fn):
    """``t1, t2 = RHS`` whose temporaries (introduced by the normalisation, read exactly once) are
    copied to their real targets by the statements that execute next (``X1 = t1; X2 = t2``, in the
    same block or at the head of the else clause of the try whose body the unpacking ends) becomes
    ``X1, X2 = RHS``"""
    orig = getattr(fn, '_orig_names', None)
    if orig is None:
        return
    loads = {}
    for n in ast.walk(fn):
        if isinstance(n, ast.Name) and isinstance(n.ctx, ast.Load):
            loads[n.id] = loads.get(n.id, 0) + 1

    def follow(block, i, owner):
        if i + 1 < len(block):
            return block, i + 1
        if isinstance(owner, ast.Try) and block is owner.body and owner.orelse:
            return owner.orelse, 0
        return None, None

    def visit(block, owner):
        for i, st in enumerate(list(block)):
            for fld in ('body', 'orelse', 'finalbody'):
                sub = getattr(st, fld, None)
                if isinstance(sub, list) and sub and isinstance(sub[0], ast.stmt) and \
                        not isinstance(st, (ast.FunctionDef, ast.ClassDef)):
                    visit(sub, st)
            for h in getattr(st, 'handlers', None) or []:
                visit(h.body, h)
            if not (isinstance(st, ast.Assign) and len(st.targets) == 1 and
                    isinstance(st.targets[0], ast.Tuple) and st in block):
                continue
            elts = st.targets[0].elts
            temps = {e.id: k for k, e in enumerate(elts) if isinstance(e, ast.Name) and
                     e.id not in orig and loads.get(e.id) == 1}
            if not temps:
                continue
            nb, j = follow(block, block.index(st), owner)
            moved = {}
            while nb is not None and j < len(nb):
                c = nb[j]
                if isinstance(c, ast.Assign) and len(c.targets) == 1 and isinstance(c.value, ast.Name) \
                        and c.value.id in temps and c.value.id not in moved and \
                        isinstance(c.targets[0], (ast.Name, ast.Attribute)):
                    moved[c.value.id] = c
                    j += 1
                    continue
                break
            for t, c in moved.items():
                tgt = copy.deepcopy(c.targets[0])
                elts[temps[t]] = tgt
                c._dead = True
    visit(fn.body, fn)
    if any(getattr(n, '_dead', False) for n in _stmts_walk(fn.body)):
        _remove_dead(fn)


def _alias_propagate(fn):
    """``x = y`` where x is stored exactly once, y is a parameter (or ``self``) that is never
    stored in the function and x was introduced by the normalisation (inlined parameter, field of
    a dissolved object): every read of x is a read of y"""
    params = {a.arg for a in fn.args.posonlyargs + fn.args.args + fn.args.kwonlyargs}
    stores = {}
    for n in _stmts_walk(fn.body):
        if isinstance(n, ast.Name) and isinstance(n.ctx, (ast.Store, ast.Del)):
            stores[n.id] = stores.get(n.id, 0) + 1
        elif isinstance(n, (ast.FunctionDef, ast.ClassDef)):
            stores[n.name] = stores.get(n.name, 0) + 2
    done = False
    for n in list(_stmts_walk(fn.body)):
        if isinstance(n, ast.Assign) and len(n.targets) == 1 and isinstance(n.targets[0], ast.Name) and \
                isinstance(n.value, ast.Name) and n.value.id in params and \
                stores.get(n.value.id, 0) == 0 and stores.get(n.targets[0].id) == 1 and \
                (n.targets[0].id.startswith('__cm_') or
                 n.targets[0].id not in getattr(fn, '_orig_names', {n.targets[0].id})):
            x, y = n.targets[0].id, n.value.id
            # nested scopes that rebind y would change the meaning: skip then
            nested = [m for m in ast.walk(fn) if isinstance(m, (ast.FunctionDef, ast.Lambda)) and m is not fn]
            if any(isinstance(k, ast.Name) and k.id == x for m in nested for k in ast.walk(m)):
                continue
            for k in _stmts_walk(fn.body):
                if isinstance(k, ast.Name) and k.id == x and isinstance(k.ctx, ast.Load):
                    k.id = y
            n._dead = True
            done = True
    if done:
        _remove_dead(fn)


def _propagate(fn):
    """copy propagation of locals bound exactly once to a pure attribute chain and only called"""
    assigns = {}
    for n in _stmts_walk(fn.body):
        if isinstance(n, ast.Assign) and len(n.targets) == 1 and isinstance(n.targets[0], ast.Name):
            assigns.setdefault(n.targets[0].id, []).append(n)
        elif isinstance(n, ast.Name) and isinstance(n.ctx, (ast.Store, ast.Del)):
            assigns.setdefault(n.id, [])
    stores = {}
    for n in _stmts_walk(fn.body):
        if isinstance(n, ast.Name) and isinstance(n.ctx, (ast.Store, ast.Del)):
            stores[n.id] = stores.get(n.id, 0) + 1
    for name, lst in assigns.items():
        if len(lst) != 1 or stores.get(name) != 1:
            continue
        a = lst[0]
        if not getattr(a, '_from_fold', False) and not isinstance(a.value, ast.Attribute):
            continue
        if not _simple(a.value) or not isinstance(a.value, ast.Attribute):
            continue
        loads = [n for n in _stmts_walk(fn.body) if isinstance(n, ast.Name) and n.id == name and
                 isinstance(n.ctx, ast.Load)]
        calls = [n for n in _stmts_walk(fn.body) if isinstance(n, ast.Call) and
                 isinstance(n.func, ast.Name) and n.func.id == name]
        if not loads or len(loads) != len(calls):
            continue
        root = a.value
        while isinstance(root, ast.Attribute):
            root = root.value
        if stores.get(root.id, 0) > 1:
            continue
        for c in calls:
            c.func = ast.copy_location(copy.deepcopy(a.value), c.func)
        a._dead = True
    if any(getattr(n, '_dead', False) for n in _stmts_walk(fn.body)):
        _remove_dead(fn)


def _remove_dead(node):
    for fld in ('body', 'orelse', 'finalbody'):
        sub = getattr(node, fld, None)
        if isinstance(sub, list) and sub and isinstance(sub[0], ast.stmt):
            new = [s for s in sub if not getattr(s, '_dead', False)]
            setattr(node, fld, new or ([ast.copy_location(ast.Pass(), sub[0])] if fld == 'body' else []))
            for s in new:
                if not isinstance(s, (ast.FunctionDef, ast.ClassDef)):
                    _remove_dead(s)
    for h in getattr(node, 'handlers', None) or []:
        _remove_dead(h)


# ---------------------------------------------------------------------------------------------
# giving the helper's locals their own names back where the live ranges allow it

def _defs_uses(node):
    """(defs, uses) of one CFG node"""
    defs, uses = set(), set()
    a = node.ast
    if a is None:
        return defs, uses
    if node.kind == 'for':
        uses |= {n.id for n in ast.walk(a) if isinstance(n, ast.Name)}
        defs |= {n.id for n in ast.walk(node.stmt.target) if isinstance(n, ast.Name)}
        uses |= {n.id for n in ast.walk(node.stmt.target) if isinstance(n, ast.Name) and
                 isinstance(n.ctx, ast.Load)}
        return defs, uses
    if node.kind == 'with':
        for it in a.items:
            uses |= {n.id for n in ast.walk(it.context_expr) if isinstance(n, ast.Name)}
            if it.optional_vars is not None:
                defs |= {n.id for n in ast.walk(it.optional_vars) if isinstance(n, ast.Name)}
        return defs, uses
    if node.kind == 'handler':
        if a.name:
            defs.add(a.name)
        if a.type is not None:
            uses |= {n.id for n in ast.walk(a.type) if isinstance(n, ast.Name)}
        return defs, uses
    if isinstance(a, (ast.FunctionDef, ast.AsyncFunctionDef, ast.ClassDef)):
        defs.add(a.name)
        uses |= {n.id for n in ast.walk(a) if isinstance(n, ast.Name)}
        return defs, uses
    for n in ast.walk(a):
        if isinstance(n, ast.Name):
            if isinstance(n.ctx, ast.Load):
                uses.add(n.id)
            else:
                defs.add(n.id)
                if isinstance(n.ctx, ast.Del):
                    uses.add(n.id)
    if isinstance(a, ast.AugAssign):
        uses |= {n.id for n in ast.walk(a.target) if isinstance(n, ast.Name)}
    # names bound inside comprehensions are not definitions of the function's locals, but
    # treating them as such only makes the interference relation larger
    return defs, uses


def _liveness(fn):
    from .cfg import AnyCall, ExcHier, build_cfg
    g = build_cfg(fn, ExcHier(None), AnyCall())
    du = {n.id: _defs_uses(n) for n in g.nodes}
    live_in = {n.id: set() for n in g.nodes}
    changed = True
    while changed:
        changed = False
        for n in reversed(g.nodes):
            out_n, out_x = set(), set()
            for d, k in g.succ[n.id]:
                (out_x if k == 'exc' else out_n).update(live_in[d])
            defs, uses = du[n.id]
            new = uses | (out_n - defs) | out_x
            if new != live_in[n.id]:
                live_in[n.id] = new
                changed = True
    live_out = {}
    for n in g.nodes:
        o = set()
        for d, k in g.succ[n.id]:
            o |= live_in[d]
        live_out[n.id] = o
    return g, du, live_out


def _coalesce(fn, renames):
    todo = []
    for new, base in renames:
        if (new, base) not in todo:
            todo.append((new, base))
    params = {a.arg for a in fn.args.posonlyargs + fn.args.args + fn.args.kwonlyargs}
    for new, base in todo:
        if new in params:
            continue
        present = _names_in(fn)
        if new not in present:
            continue
        try:
            g, du, live_out = _liveness(fn)
        except Exception:
            return
        clash = False
        for n in g.nodes:
            defs, uses = du[n.id]
            a = n.ast
            is_copy = isinstance(a, ast.Assign) and len(a.targets) == 1 and \
                isinstance(a.targets[0], ast.Name) and isinstance(a.value, ast.Name) and \
                {a.targets[0].id, a.value.id} == {new, base}
            if is_copy:
                continue
            if new in defs and base in live_out[n.id]:
                clash = True
            if base in defs and new in live_out[n.id]:
                clash = True
        # a parameter of the host is defined at entry
        if base in params:
            ent_live = set()
            for d, k in g.succ[g.entry]:
                pass
        if clash:
            continue
        _Rename({new: base}, {}).visit(fn)
        _drop_self_assign(fn)


def _drop_self_assign(node):
    for fld in ('body', 'orelse', 'finalbody'):
        sub = getattr(node, fld, None)
        if isinstance(sub, list) and sub and isinstance(sub[0], ast.stmt):
            new = [s for s in sub if not (
                isinstance(s, ast.Assign) and len(s.targets) == 1 and
                isinstance(s.targets[0], ast.Name) and isinstance(s.value, ast.Name) and
                s.targets[0].id == s.value.id)]
            if not new and fld == 'body':
                new = [ast.copy_location(ast.Pass(), sub[0])]
            setattr(node, fld, new)
            for s in new:
                if not isinstance(s, (ast.FunctionDef, ast.ClassDef)):
                    _drop_self_assign(s)
    for h in getattr(node, 'handlers', None) or []:
        _drop_self_assign(h)


# ---------------------------------------------------------------------------------------------

def _devirtualise(tree, log=None):
    """``f = A if c else B`` ... ``f(args)``  ->  ``if c: A(args) else: B(args)`` (statement calls and
    ``x = f(args)``), when *f* is assigned once, only ever called, and *c* is a pure expression.
    Choosing between two helpers through a conditional alias is how "extract the two variants of
    a loop" usually ends up; afterwards the ordinary inlining applies to A and B."""
    for fn in [n for n in ast.walk(tree) if isinstance(n, (ast.FunctionDef, ast.AsyncFunctionDef))]:
        cands = {}
        stores = {}
        for n in _walk_no_nested(fn):
            if isinstance(n, ast.Name) and isinstance(n.ctx, ast.Store):
                stores[n.id] = stores.get(n.id, 0) + 1
            if isinstance(n, ast.Assign) and len(n.targets) == 1 and isinstance(n.targets[0], ast.Name) \
                    and isinstance(n.value, ast.IfExp) and isinstance(n.value.body, ast.Name) and \
                    isinstance(n.value.orelse, ast.Name) and _pure(n.value.test):
                cands[n.targets[0].id] = n
        for v, asg in list(cands.items()):
            if stores.get(v) != 1:
                continue
            loads = [n for n in _walk_no_nested(fn) if isinstance(n, ast.Name) and n.id == v and
                     isinstance(n.ctx, ast.Load)]
            sites = []
            ok = bool(loads)

            def find_stmt(body):
                for blk in _blocks(body):
                    for i, st in enumerate(blk):
                        call = None
                        if isinstance(st, ast.Expr) and isinstance(st.value, ast.Call):
                            call = st.value
                        elif isinstance(st, (ast.Assign, ast.AugAssign)) and isinstance(st.value, ast.Call):
                            call = st.value
                        if call is not None and isinstance(call.func, ast.Name) and call.func.id == v:
                            sites.append((blk, i, st, call))
            find_stmt(fn.body)
            used = {id(c.func) for _b, _i, _s, c in sites}
            if not ok or any(id(n) not in used for n in loads):
                continue
            for blk, i, st, call in sites:
                a, b = copy.deepcopy(st), copy.deepcopy(st)
                for variant, target in ((a, asg.value.body), (b, asg.value.orelse)):
                    for n in ast.walk(variant):
                        if isinstance(n, ast.Call) and isinstance(n.func, ast.Name) and n.func.id == v:
                            n.func = ast.copy_location(ast.Name(id=target.id, ctx=ast.Load()), n.func)
                j = [k for k, x in enumerate(blk) if x is st][0]
                blk[j] = ast.copy_location(ast.If(test=copy.deepcopy(asg.value.test), body=[a], orelse=[b]), st)
            for blk in _blocks(fn.body):
                for k, x in enumerate(list(blk)):
                    if x is asg:
                        blk[k] = ast.copy_location(ast.Pass(), asg)
            if log is not None:
                log.setdefault('devirtualised', []).append('%s: %s' % (fn.name, v))
    return tree


def _module_tables(tree, known):
    """constants introduced by the edit that only exist to drive control flow are put back where
    they are used: ``T = {True: f, False: g}`` ... ``T[bool(c)]`` becomes ``f if c else g``; a
    module-level tuple / list of literal rows ``ROWS = ((a, 'x', True), ...)`` iterated by ``for ...
    in ROWS`` becomes the literal itself (the loop is then written out like any loop over a
    literal)"""
    kn = set(known.get('names', ()))
    dispatch, rows = {}, {}
    for st in tree.body:
        if not (isinstance(st, ast.Assign) and len(st.targets) == 1 and isinstance(st.targets[0], ast.Name)
                and st.targets[0].id not in kn):
            continue
        v = st.value
        if isinstance(v, ast.Dict) and len(v.keys) == 2 and \
                all(isinstance(k, ast.Constant) and isinstance(k.value, bool) for k in v.keys) and \
                {k.value for k in v.keys} == {True, False} and all(isinstance(x, ast.Name) for x in v.values):
            dispatch[st.targets[0].id] = {k.value: x for k, x in zip(v.keys, v.values)}
        elif isinstance(v, (ast.Tuple, ast.List)) and 0 < len(v.elts) <= 24 and \
                all(isinstance(r, (ast.Tuple, ast.Constant)) for r in v.elts) and \
                all(_pure(r) for r in v.elts):
            rows[st.targets[0].id] = v
    if not dispatch and not rows:
        return tree
    # a name that is rebound anywhere is not a constant
    for n in ast.walk(tree):
        if isinstance(n, ast.Name) and isinstance(n.ctx, (ast.Store, ast.Del)):
            for tbl in (dispatch, rows):
                if n.id in tbl and not any(isinstance(st, ast.Assign) and st.targets[0] is n
                                           for st in tree.body if isinstance(st, ast.Assign)):
                    tbl.pop(n.id, None)

    class T(ast.NodeTransformer):
        def visit_Subscript(self, n):
            self.generic_visit(n)
            if isinstance(n.value, ast.Name) and n.value.id in dispatch and isinstance(n.ctx, ast.Load):
                k = n.slice
                test = None
                if isinstance(k, ast.Call) and isinstance(k.func, ast.Name) and k.func.id == 'bool' and \
                        len(k.args) == 1 and not k.keywords:
                    test = k.args[0]
                elif isinstance(k, (ast.Compare, ast.BoolOp)) or (
                        isinstance(k, ast.UnaryOp) and isinstance(k.op, ast.Not)):
                    test = k
                if test is not None and _pure(test):
                    d = dispatch[n.value.id]
                    return ast.copy_location(ast.IfExp(test=test, body=copy.deepcopy(d[True]),
                                                       orelse=copy.deepcopy(d[False])), n)
            return n

        def visit_For(self, n):
            self.generic_visit(n)
            if isinstance(n.iter, ast.Name) and n.iter.id in rows:
                n.iter = ast.copy_location(copy.deepcopy(rows[n.iter.id]), n.iter)
            return n
    for fn in [x for x in ast.walk(tree) if isinstance(x, (ast.FunctionDef, ast.AsyncFunctionDef))]:
        shadow = {a.arg for a in ast.walk(fn) if isinstance(a, ast.arg)} | \
            {x.id for x in ast.walk(fn) if isinstance(x, ast.Name) and isinstance(x.ctx, ast.Store)}
        if shadow & (set(dispatch) | set(rows)):
            continue
        T().visit(fn)
    ast.fix_missing_locations(tree)
    return tree


def _blocks(body):
    """every statement list reachable from *body* without entering nested functions/classes"""
    yield body
    for st in body:
        if isinstance(st, (ast.FunctionDef, ast.AsyncFunctionDef, ast.ClassDef)):
            continue
        for fld in ('body', 'orelse', 'finalbody'):
            sub = getattr(st, fld, None)
            if isinstance(sub, list) and sub and isinstance(sub[0], ast.stmt):
                yield from _blocks(sub)
        for h in getattr(st, 'handlers', []) or []:
            yield from _blocks(h.body)


def normalise(tree, modname, log=None):
    known = table().get(modname)
    if known is None or os.environ.get('VERIF_NO_NORMALISE'):
        return tree
    tree = _module_tables(tree, known)
    tree = _devirtualise(tree, log)
    tree = _desugar_with(tree, known)
    inl = Inliner(tree, modname, known)
    tree = inl.run()
    if log is not None:
        log.setdefault('inlined', []).extend('%s.%s -> %s' % (modname, h, host) for h, host in inl.inlined)
        log.setdefault('left', []).extend('%s.%s: %s' % (modname, h, why) for h, why in inl.left)
    return tree
