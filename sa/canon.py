"""T0b -- role table for locals.

A handful of rules name a local variable of the analysed code when they describe what they look at
(``options.at_level`` in get_options, the command-line list ``args`` of the child, ``unvisited`` /
``state`` / ``stack`` in DiGraph.sccs ...).  Names are not what decides a property, so before the
source model is built the locals that PLAY these roles are found by what they do (def-use facts,
never their spelling) and given the name the rules use.  If a role cannot be found nothing is
renamed and the rule reports what it always reported for an unknown shape.

Each entry:  qualified function -> [(canonical name, finder(function node) -> current name or None)].
Discovered mechanically: tools/alpha_single.py renames one local at a time and lists the checks that
stop being green; this table is what was left after the rules were made role based where that was
simpler.
"""
import ast


def _dotted(e):
    parts = []
    while isinstance(e, ast.Attribute):
        parts.append(e.attr)
        e = e.value
    if isinstance(e, ast.Name):
        parts.append(e.id)
        return '.'.join(reversed(parts))
    return None


def _walk(fn):
    todo = list(fn.body)
    while todo:
        n = todo.pop()
        yield n
        if isinstance(n, (ast.FunctionDef, ast.AsyncFunctionDef, ast.ClassDef, ast.Lambda)):
            continue
        todo.extend(ast.iter_child_nodes(n))


def _assigned_from(fn, pred):
    """name of the (single) local assigned by ``name = <value satisfying pred>``"""
    out = []
    for n in _walk(fn):
        if isinstance(n, ast.Assign) and len(n.targets) == 1 and isinstance(n.targets[0], ast.Name) \
                and pred(n.value):
            if n.targets[0].id not in out:
                out.append(n.targets[0].id)
    return out[0] if len(out) == 1 else None


def _call_named(v, *names):
    return isinstance(v, ast.Call) and (_dotted(v.func) or '').split('.')[-1] in names


# ---- finders ---------------------------------------------------------------------------------

def returned_name(fn):
    """the local the function returns (``return options``)"""
    rets = [n for n in _walk(fn) if isinstance(n, ast.Return) and n.value is not None]
    names = {n.value.id for n in rets if isinstance(n.value, ast.Name)}
    return names.pop() if len(names) == 1 and len(rets) and all(
        isinstance(n.value, ast.Name) for n in rets) else None


def options_of_configure(fn):
    """``self.options = X`` / X = get_options(...)"""
    for n in _walk(fn):
        if isinstance(n, ast.Assign) and any(_dotted(t) == 'self.options' for t in n.targets) and \
                isinstance(n.value, ast.Name):
            return n.value.id
    return _assigned_from(fn, lambda v: _call_named(v, 'get_options'))


def alias_of(dotted_text):
    def f(fn):
        return _assigned_from(fn, lambda v: _dotted(v) == dotted_text)
    return f


def popen_args(fn):
    """the list handed to subprocess.Popen as command line"""
    for n in _walk(fn):
        if _call_named(n, 'Popen') and n.args and isinstance(n.args[0], ast.Name):
            return n.args[0].id
    return None


def collector_factory(fn):
    """the local bound to one of the *SubprocessResult classes and called to make a result"""
    def is_cls(v):
        return isinstance(v, ast.Name) and v.id.endswith('SubprocessResult')
    out = set()
    for n in _walk(fn):
        if isinstance(n, ast.Assign) and len(n.targets) == 1 and isinstance(n.targets[0], ast.Name) \
                and is_cls(n.value):
            out.add(n.targets[0].id)
    return out.pop() if len(out) == 1 else None


def feature_loop_var(fn):
    """loop variable of the loops over self.features (all the same name)"""
    names = set()
    for n in _walk(fn):
        if isinstance(n, ast.For) and isinstance(n.target, ast.Name) and \
                'self.features' in ast.unparse(n.iter):
            names.add(n.target.id)
    return names.pop() if len(names) == 1 else None


def imported_module_name(fn):
    """the local passed to import_name(...)"""
    for n in _walk(fn):
        if _call_named(n, 'import_name') and len(n.args) == 1 and isinstance(n.args[0], ast.Name):
            return n.args[0].id
    return None


def suites_loop_value(fn):
    """second loop variable of ``for name, suite in self._testSuites.items()``"""
    for n in _walk(fn):
        if isinstance(n, ast.For) and isinstance(n.target, ast.Tuple) and len(n.target.elts) == 2 and \
                '_testSuites' in ast.unparse(n.iter) and isinstance(n.target.elts[1], ast.Name):
            return n.target.elts[1].id
    return None


def record_field(field):
    """local handed to TestCaseInfo(...) for *field* (keyword, or position in the dataclass order
    test, time, testClassName, testName, failure, error)"""
    order = ['test', 'time', 'testClassName', 'testName', 'failure', 'error']

    def f(fn):
        for n in _walk(fn):
            if _call_named(n, 'TestCaseInfo'):
                for k in n.keywords:
                    if k.arg == field and isinstance(k.value, ast.Name):
                        return k.value.id
                i = order.index(field)
                if i < len(n.args) and isinstance(n.args[i], ast.Name):
                    return n.args[i].id
        return None
    return f


# ---- DiGraph.sccs ------------------------------------------------------------------------

def scc_unvisited(fn):
    """the working copy of the node set: X = self._nodes.copy() / set(self._nodes)"""
    return _assigned_from(fn, lambda v: ast.unparse(v) in ('self._nodes.copy()', 'set(self._nodes)'))


def scc_state(fn):
    """the map node -> state object: the name subscripted on the left of ``X[n] = Cls(...)``"""
    for n in _walk(fn):
        if isinstance(n, ast.Assign) and isinstance(n.value, ast.Call) and \
                isinstance(n.value.func, ast.Name):
            for t in n.targets:
                if isinstance(t, ast.Subscript) and isinstance(t.value, ast.Name) and \
                        isinstance(t.slice, ast.Name):
                    return t.value.id
    return None


def scc_visits(fn):
    """the work list: extended with the neighbours of a node"""
    for n in _walk(fn):
        if isinstance(n, ast.Call) and isinstance(n.func, ast.Attribute) and n.func.attr == 'extend' \
                and isinstance(n.func.value, ast.Name) and n.args and '_neighbors' in ast.unparse(n.args[0]):
            return n.func.value.id
    return None


def scc_stack(fn):
    """the Tarjan stack: the list whose popped element gets ``<state>[x].stacked = False``"""
    pops = {}
    for n in _walk(fn):
        if isinstance(n, ast.Assign) and len(n.targets) == 1 and isinstance(n.targets[0], ast.Name) and \
                isinstance(n.value, ast.Call) and isinstance(n.value.func, ast.Attribute) and \
                n.value.func.attr == 'pop' and not n.value.args and isinstance(n.value.func.value, ast.Name):
            pops[n.targets[0].id] = n.value.func.value.id
    for n in _walk(fn):
        if isinstance(n, ast.Assign) and isinstance(n.value, ast.Constant) and n.value.value is False:
            for t in n.targets:
                if isinstance(t, ast.Attribute) and t.attr == 'stacked' and \
                        isinstance(t.value, ast.Subscript) and isinstance(t.value.slice, ast.Name) and \
                        t.value.slice.id in pops:
                    return pops[t.value.slice.id]
    return None


def scc_component(fn):
    """the list a component is collected in: receives the elements popped off the stack"""
    st = scc_stack(fn)
    popped = set()
    for n in _walk(fn):
        if isinstance(n, ast.Assign) and len(n.targets) == 1 and isinstance(n.targets[0], ast.Name) and \
                isinstance(n.value, ast.Call) and isinstance(n.value.func, ast.Attribute) and \
                n.value.func.attr == 'pop' and _dotted(n.value.func.value) == st:
            popped.add(n.targets[0].id)
    for n in _walk(fn):
        if isinstance(n, ast.Call) and isinstance(n.func, ast.Attribute) and n.func.attr == 'append' and \
                isinstance(n.func.value, ast.Name) and len(n.args) == 1 and \
                isinstance(n.args[0], ast.Name) and n.args[0].id in popped:
            return n.func.value.id
    return None


TABLE = {
    'options.get_options': [('options', returned_name)],
    'runner.Runner.configure': [('options', options_of_configure)],
    'filter.Filter.global_setup': [('options', alias_of('self.runner.options'))],
    'runner.spawn_layer_in_subprocess': [('args', popen_args)],
    'runner.resume_tests': [('result_factory', collector_factory)],
    'runner.Runner.run': [('feature', feature_loop_var)],
    'find.find_suites': [('module_name', imported_module_name)],
    'formatter.XMLOutputFormattingWrapper.writeXMLReports': [('suite', suites_loop_value)],
    'formatter.XMLOutputFormattingWrapper._record': [('testClassName', record_field('testClassName')),
                                                    ('testName', record_field('testName'))],
    'digraph.DiGraph.sccs': [('unvisited', scc_unvisited), ('state', scc_state), ('visits', scc_visits),
                             ('stack', scc_stack), ('scc', scc_component)],
}


def _find_func(tree, parts):
    body = tree.body
    node = None
    for p in parts:
        node = None
        for n in body:
            if isinstance(n, (ast.FunctionDef, ast.AsyncFunctionDef, ast.ClassDef)) and n.name == p:
                node = n
        if node is None:
            return None
        body = node.body
    return node


def _names_in(fn):
    out = set()
    for n in ast.walk(fn):
        if isinstance(n, ast.Name):
            out.add(n.id)
        elif isinstance(n, ast.arg):
            out.add(n.arg)
        elif isinstance(n, ast.ExceptHandler) and n.name:
            out.add(n.name)
    return out


_FLIP = {ast.Lt: ast.Gt, ast.Gt: ast.Lt, ast.LtE: ast.GtE, ast.GtE: ast.LtE, ast.Eq: ast.Eq,
         ast.NotEq: ast.NotEq}


def orient_comparisons(tree):
    """one spelling for ``1 < x`` / ``x > 1`` and ``UnitTests != ly`` / ``ly != UnitTests``: in a single
    comparison the more constant operand goes to the right (literal > module-level name > anything
    that involves a local, a parameter or self).  Operands with calls are left alone (evaluation
    order)."""
    def locals_of(fn):
        out = set()
        for n in ast.walk(fn):
            if isinstance(n, ast.Name) and isinstance(n.ctx, (ast.Store, ast.Del)):
                out.add(n.id)
            elif isinstance(n, ast.arg):
                out.add(n.arg)
            elif isinstance(n, ast.ExceptHandler) and n.name:
                out.add(n.name)
        return out

    def rank(e, bound):
        if isinstance(e, ast.Constant):
            return 3
        names = [x.id for x in ast.walk(e) if isinstance(x, ast.Name)]
        if any(isinstance(x, (ast.Call, ast.Await, ast.Yield, ast.NamedExpr, ast.Subscript))
               for x in ast.walk(e)):
            return 0
        if names and all(nm not in bound and nm != 'self' for nm in names):
            return 2
        return 1

    def visit(node, bound):
        for c in ast.iter_child_nodes(node):
            b = bound
            if isinstance(c, (ast.FunctionDef, ast.AsyncFunctionDef, ast.Lambda)):
                b = bound | locals_of(c)
            visit(c, b)
            if isinstance(c, ast.Compare) and len(c.ops) == 1 and type(c.ops[0]) in _FLIP:
                l, r = c.left, c.comparators[0]
                rl, rr = rank(l, b), rank(r, b)
                if rl and rr and rl > rr:
                    c.left, c.comparators, c.ops = r, [l], [_FLIP[type(c.ops[0])]()]
    visit(tree, set())
    return tree


def split_parallel_assign(tree):
    """``a, b = x, y`` -> ``a = x; b = y`` when that is the same thing: no element of the right-hand
    side that is evaluated later mentions a location assigned earlier (so a swap stays as it is)"""
    def texts(e):
        return {ast.unparse(x) for x in ast.walk(e) if isinstance(x, (ast.Name, ast.Attribute, ast.Subscript))}

    def visit(body):
        i = 0
        while i < len(body):
            st = body[i]
            for fld in ('body', 'orelse', 'finalbody'):
                sub = getattr(st, fld, None)
                if isinstance(sub, list) and sub and isinstance(sub[0], ast.stmt):
                    visit(sub)
            for h in getattr(st, 'handlers', []) or []:
                visit(h.body)
            if isinstance(st, ast.Assign) and len(st.targets) == 1 and \
                    isinstance(st.targets[0], (ast.Tuple, ast.List)) and \
                    isinstance(st.value, (ast.Tuple, ast.List)) and \
                    len(st.targets[0].elts) == len(st.value.elts) and \
                    not any(isinstance(e, ast.Starred) for e in st.targets[0].elts + st.value.elts):
                ts, vs = st.targets[0].elts, st.value.elts
                safe = all(ast.unparse(ts[a]) not in texts(vs[b]) and
                           not any(ast.unparse(ts[a]).startswith(x + '.') or x.startswith(ast.unparse(ts[a]) + '.')
                                   for x in texts(vs[b]))
                           for a in range(len(ts)) for b in range(a + 1, len(ts)))
                if safe:
                    new = [ast.copy_location(ast.Assign(targets=[t], value=v), st) for t, v in zip(ts, vs)]
                    body[i:i + 1] = new
                    i += len(new)
                    continue
            i += 1
    visit(tree.body)
    return tree


_ITER_WRAPPERS = ('enumerate', 'zip', 'reversed', 'iter', 'sorted', 'list', 'tuple', 'range')


def inline_loop_iterables(tree):
    """``it = enumerate(xs, k)`` directly followed by ``for ... in it:`` (the only read of *it*):
    the iterable is written into the for statement"""
    for fn in [n for n in ast.walk(tree) if isinstance(n, (ast.FunctionDef, ast.AsyncFunctionDef))]:
        reads, writes = {}, {}
        for n in ast.walk(fn):
            if isinstance(n, ast.Name):
                d = reads if isinstance(n.ctx, ast.Load) else writes
                d[n.id] = d.get(n.id, 0) + 1

        def visit(body):
            i = 0
            while i + 1 < len(body):
                a, b = body[i], body[i + 1]
                if isinstance(a, ast.Assign) and len(a.targets) == 1 and isinstance(a.targets[0], ast.Name) \
                        and isinstance(a.value, ast.Call) and isinstance(a.value.func, ast.Name) and \
                        a.value.func.id in _ITER_WRAPPERS and isinstance(b, ast.For) and \
                        isinstance(b.iter, ast.Name) and b.iter.id == a.targets[0].id and \
                        reads.get(b.iter.id) == 1 and writes.get(b.iter.id) == 1:
                    b.iter = a.value
                    del body[i]
                    continue
                i += 1
            for st in body:
                for fld in ('body', 'orelse', 'finalbody'):
                    sub = getattr(st, fld, None)
                    if isinstance(sub, list) and sub and isinstance(sub[0], ast.stmt) and \
                            not isinstance(st, (ast.FunctionDef, ast.AsyncFunctionDef, ast.ClassDef)):
                        visit(sub)
                for h in getattr(st, 'handlers', []) or []:
                    visit(h.body)
        visit(fn.body)
    return tree


def _fn_blocks(node):
    """every statement list inside *node* (not entering nested definitions): (list, owner)"""
    for fld in ('body', 'orelse', 'finalbody'):
        sub = getattr(node, fld, None)
        if isinstance(sub, list) and sub and isinstance(sub[0], ast.stmt):
            yield sub, node
            for s_ in sub:
                if not isinstance(s_, (ast.FunctionDef, ast.AsyncFunctionDef, ast.ClassDef)):
                    yield from _fn_blocks(s_)
    for h in getattr(node, 'handlers', None) or []:
        yield from _fn_blocks(h)


def unzip_pairs(tree):
    """A local list J that only collects tuples (``J.append((a, b))``) and is only ever read by
    projections ``X = [a for a, b in J]`` / ``X = deque(b for a, b in J)`` is a zipped pair of
    lists: each projection target becomes its own list, filled where J was filled.  Canonical form
    of "build parallel lists" -- behaviour-preserving because J has no other reader."""
    import copy
    for fn in [n for n in ast.walk(tree) if isinstance(n, (ast.FunctionDef, ast.AsyncFunctionDef))]:
        parents = {}
        for n in _walk(fn):
            for c in ast.iter_child_nodes(n):
                parents[id(c)] = n
        for c in ast.iter_child_nodes(fn):
            parents[id(c)] = fn
        cands = {}
        for n in _walk(fn):
            if isinstance(n, ast.Assign) and len(n.targets) == 1 and isinstance(n.targets[0], ast.Name) \
                    and isinstance(n.value, ast.List) and not n.value.elts:
                cands.setdefault(n.targets[0].id, []).append(n)
        for J, inits in cands.items():
            if len(inits) != 1:
                continue
            appends, projs, ok, width = [], [], True, None
            for n in _walk(fn):
                if not (isinstance(n, ast.Name) and n.id == J):
                    continue
                par = parents.get(id(n))
                gp = parents.get(id(par))
                if isinstance(n.ctx, ast.Store):
                    if par is not inits[0]:
                        ok = False
                    continue
                if isinstance(par, ast.Attribute) and par.attr == 'append' and isinstance(gp, ast.Call) \
                        and gp.func is par and len(gp.args) == 1 and isinstance(gp.args[0], ast.Tuple) \
                        and isinstance(parents.get(id(gp)), ast.Expr):
                    w = len(gp.args[0].elts)
                    if width not in (None, w):
                        ok = False
                    width = w
                    appends.append(parents.get(id(gp)))
                    continue
                if isinstance(par, ast.comprehension) and par.iter is n and not par.ifs and \
                        isinstance(par.target, ast.Tuple) and \
                        all(isinstance(e, ast.Name) for e in par.target.elts):
                    comp = parents.get(id(par))
                    if isinstance(comp, (ast.ListComp, ast.GeneratorExp)) and len(comp.generators) == 1 \
                            and isinstance(comp.elt, ast.Name) and \
                            comp.elt.id in [e.id for e in par.target.elts]:
                        k = [e.id for e in par.target.elts].index(comp.elt.id)
                        holder = parents.get(id(comp))
                        wrap = None
                        if isinstance(holder, ast.Call) and len(holder.args) == 1 and not holder.keywords \
                                and holder.args[0] is comp and \
                                (_dotted(holder.func) or '').split('.')[-1] in ('list', 'deque', 'tuple'):
                            wrap = holder
                            holder = parents.get(id(holder))
                        if isinstance(holder, ast.Assign) and len(holder.targets) == 1 and \
                                isinstance(holder.targets[0], ast.Name) and \
                                holder.value is (wrap or comp) and len(par.target.elts) == (width or len(par.target.elts)):
                            projs.append((holder, k, len(par.target.elts)))
                            continue
                ok = False
            if not ok or not appends or not projs or any(w != width for _h, _k, w in projs):
                continue
            targets = [h.targets[0].id for h, _k, _w in projs]
            if len(set(targets)) != len(targets):
                continue
            # the projection targets must not be used before their projection statement
            used_elsewhere = False
            for X in targets:
                stores = [n for n in _walk(fn) if isinstance(n, ast.Name) and n.id == X and
                          isinstance(n.ctx, ast.Store)]
                if len(stores) != 1:
                    used_elsewhere = True
            if used_elsewhere:
                continue
            # rewrite
            for blk, _owner in _fn_blocks(fn):
                i = 0
                while i < len(blk):
                    st = blk[i]
                    if st is inits[0]:
                        new = [ast.copy_location(ast.Assign(
                            targets=[ast.Name(id=X, ctx=ast.Store())], value=ast.List(elts=[], ctx=ast.Load())),
                            st) for X in targets]
                        blk[i:i + 1] = new
                        i += len(new)
                        continue
                    if any(st is a for a in appends):
                        tup = st.value.args[0]
                        new = []
                        for (h, k, _w), X in zip(projs, targets):
                            call = ast.Call(func=ast.Attribute(value=ast.Name(id=X, ctx=ast.Load()),
                                                               attr='append', ctx=ast.Load()),
                                            args=[copy.deepcopy(tup.elts[k])], keywords=[])
                            new.append(ast.copy_location(ast.Expr(value=call), st))
                        blk[i:i + 1] = new
                        i += len(new)
                        continue
                    if any(st is h for h, _k, _w in projs):
                        del blk[i]
                        continue
                    i += 1
            ast.fix_missing_locations(fn)


def loops_to_comprehensions(tree):
    """``L = []`` directly followed by ``for x in I: [if c:] L.append(e)`` (nothing else in the loop)
    is the list comprehension ``L = [e for x in I if c]``"""
    for fn in [n for n in ast.walk(tree) if isinstance(n, (ast.FunctionDef, ast.AsyncFunctionDef))]:
        for blk, _owner in _fn_blocks(fn):
            i = 0
            while i + 1 < len(blk):
                a, lp = blk[i], blk[i + 1]
                if isinstance(a, ast.Assign) and len(a.targets) == 1 and isinstance(a.targets[0], ast.Name) \
                        and isinstance(a.value, ast.List) and not a.value.elts and \
                        isinstance(lp, ast.For) and not lp.orelse and len(lp.body) == 1:
                    L = a.targets[0].id
                    inner = lp.body[0]
                    conds = []
                    while isinstance(inner, ast.If) and not inner.orelse and len(inner.body) == 1:
                        conds.append(inner.test)
                        inner = inner.body[0]
                    if isinstance(inner, ast.Expr) and isinstance(inner.value, ast.Call) and \
                            isinstance(inner.value.func, ast.Attribute) and inner.value.func.attr == 'append' \
                            and isinstance(inner.value.func.value, ast.Name) and \
                            inner.value.func.value.id == L and len(inner.value.args) == 1 and \
                            not any(isinstance(x, ast.Name) and x.id == L
                                    for e in [lp.iter, inner.value.args[0]] + conds for x in ast.walk(e)) and \
                            not any(isinstance(x, (ast.Yield, ast.YieldFrom, ast.Await, ast.NamedExpr))
                                    for x in ast.walk(lp)):
                        comp = ast.ListComp(elt=inner.value.args[0], generators=[
                            ast.comprehension(target=lp.target, iter=lp.iter, ifs=conds, is_async=0)])
                        blk[i:i + 2] = [ast.copy_location(ast.Assign(targets=a.targets, value=comp), a)]
                        ast.fix_missing_locations(blk[i])
                        continue
                i += 1


def countdown_loops(tree):
    """``i = len(X)`` directly followed by ``while i > 0: i -= 1; BODY`` (BODY does not assign i, no
    else clause) visits i = len(X)-1 ... 0 with the length read once: ``for i in
    reversed(range(len(X))): BODY``"""
    for fn in [n for n in ast.walk(tree) if isinstance(n, (ast.FunctionDef, ast.AsyncFunctionDef))]:
        for blk, _owner in _fn_blocks(fn):
            i = 0
            while i + 1 < len(blk):
                a, lp = blk[i], blk[i + 1]
                if isinstance(a, ast.Assign) and len(a.targets) == 1 and isinstance(a.targets[0], ast.Name) \
                        and isinstance(a.value, ast.Call) and isinstance(a.value.func, ast.Name) and \
                        a.value.func.id == 'len' and len(a.value.args) == 1 and \
                        isinstance(lp, ast.While) and not lp.orelse and len(lp.body) >= 2:
                    v = a.targets[0].id
                    t = lp.test
                    test_ok = isinstance(t, ast.Compare) and len(t.ops) == 1 and (
                        (isinstance(t.ops[0], ast.Gt) and isinstance(t.left, ast.Name) and t.left.id == v
                         and isinstance(t.comparators[0], ast.Constant) and t.comparators[0].value == 0) or
                        (isinstance(t.ops[0], ast.Lt) and isinstance(t.comparators[0], ast.Name) and
                         t.comparators[0].id == v and isinstance(t.left, ast.Constant) and t.left.value == 0))
                    d = lp.body[0]
                    dec_ok = isinstance(d, ast.AugAssign) and isinstance(d.op, ast.Sub) and \
                        isinstance(d.target, ast.Name) and d.target.id == v and \
                        isinstance(d.value, ast.Constant) and d.value.value == 1
                    rest = lp.body[1:]
                    other = any(isinstance(x, ast.Name) and x.id == v and isinstance(x.ctx, (ast.Store, ast.Del))
                                for s_ in rest for x in ast.walk(s_))
                    # the variable must not be read after the loop (it would be 0 there, after a
                    # for loop it is the last index): only rewrite when it is dead afterwards
                    later = any(isinstance(x, ast.Name) and x.id == v for s_ in blk[i + 2:] for x in ast.walk(s_))
                    if test_ok and dec_ok and not other and not later:
                        it = ast.Call(func=ast.Name(id='reversed', ctx=ast.Load()), args=[
                            ast.Call(func=ast.Name(id='range', ctx=ast.Load()), args=[a.value], keywords=[])],
                            keywords=[])
                        new = ast.For(target=ast.Name(id=v, ctx=ast.Store()), iter=it, body=rest, orelse=[])
                        blk[i:i + 2] = [ast.fix_missing_locations(ast.copy_location(new, lp))]
                        continue
                i += 1


def _is_jump(st):
    return isinstance(st, (ast.Break, ast.Return, ast.Raise)) or (
        isinstance(st, ast.Expr) and isinstance(st.value, ast.Name) and
        st.value.id.startswith('__inline_return__'))


def index_walk_to_queue(tree):
    """``for i, T in enumerate(Q): BODY`` over a fresh local list Q where i is only used to name the
    rest of the list -- ``X = Q[i:]`` (from the current element on) and ``X = Q[i + 1:]`` (after
    it), each on a path that then leaves the loop -- is the queue walk
    ``while Q: T = Q[0]; BODY'; Q.pop(0)`` with ``X = Q`` / ``Q.pop(0); X = Q`` at those places.
    Q has no other reader, so consuming it is not observable.  A name X all of whose definitions
    are then ``X = Q`` (or ``X = []`` right after the loop, where Q is empty) IS the queue."""
    import copy
    for fn in [n for n in ast.walk(tree) if isinstance(n, (ast.FunctionDef, ast.AsyncFunctionDef))]:
        for blk, _owner in list(_fn_blocks(fn)):
            for pos, lp in enumerate(list(blk)):
                if not (isinstance(lp, ast.For) and not lp.orelse and isinstance(lp.iter, ast.Call) and
                        isinstance(lp.iter.func, ast.Name) and lp.iter.func.id == 'enumerate' and
                        len(lp.iter.args) == 1 and not lp.iter.keywords and
                        isinstance(lp.iter.args[0], ast.Name) and isinstance(lp.target, ast.Tuple) and
                        len(lp.target.elts) == 2 and isinstance(lp.target.elts[0], ast.Name)):
                    continue
                Q, i = lp.iter.args[0].id, lp.target.elts[0].id
                stores = [n for n in _walk(fn) if isinstance(n, ast.Name) and n.id == Q and
                          isinstance(n.ctx, (ast.Store, ast.Del))]
                if len(stores) != 1:
                    continue
                qdef = [n for n in _walk(fn) if isinstance(n, ast.Assign) and len(n.targets) == 1 and
                        n.targets[0] is stores[0]]
                if not qdef or not (isinstance(qdef[0].value, (ast.ListComp, ast.List)) or (
                        isinstance(qdef[0].value, ast.Call) and isinstance(qdef[0].value.func, ast.Name)
                        and qdef[0].value.func.id in ('list', 'sorted'))):
                    continue
                if any(isinstance(n, ast.Continue) for s_ in lp.body for n in ast.walk(s_)):
                    continue
                # classify every use of Q and i
                sites, ok = [], True
                parents = {}
                for n in _walk(fn):
                    for c in ast.iter_child_nodes(n):
                        parents[id(c)] = n

                def offset(sl):
                    if not (isinstance(sl, ast.Slice) and sl.upper is None and sl.step is None):
                        return None
                    lo = sl.lower
                    if isinstance(lo, ast.Name) and lo.id == i:
                        return 0
                    if isinstance(lo, ast.BinOp) and isinstance(lo.op, ast.Add) and \
                            isinstance(lo.left, ast.Name) and lo.left.id == i and \
                            isinstance(lo.right, ast.Constant) and lo.right.value == 1:
                        return 1
                    return None
                inside = {id(n) for s_ in lp.body for n in ast.walk(s_)}
                for n in _walk(fn):
                    if isinstance(n, ast.Name) and n.id == Q and isinstance(n.ctx, ast.Load):
                        if n is lp.iter.args[0]:
                            continue
                        par = parents.get(id(n))
                        gp = parents.get(id(par))
                        if id(n) in inside and isinstance(par, ast.Subscript) and par.value is n and \
                                offset(par.slice) is not None and isinstance(gp, ast.Assign) and \
                                gp.value is par and len(gp.targets) == 1 and \
                                isinstance(gp.targets[0], ast.Name):
                            sites.append((gp, offset(par.slice)))
                        else:
                            ok = False
                    if isinstance(n, ast.Name) and n.id == i and n is not lp.target.elts[0]:
                        par = parents.get(id(n))
                        while par is not None and not isinstance(par, ast.Slice):
                            if isinstance(par, ast.stmt):
                                par = None
                                break
                            par = parents.get(id(par))
                        if par is None or offset(par) is None:
                            ok = False
                if not ok or not sites:
                    continue
                # each site lies in a block that ends by leaving the loop
                site_blocks = {}
                for b2, _o in _fn_blocks(lp):
                    for k, st in enumerate(b2):
                        for gp, off in sites:
                            if st is gp:
                                site_blocks[id(gp)] = (b2, k)
                if len(site_blocks) != len(sites) or not all(_is_jump(b2[-1]) for b2, _k in site_blocks.values()):
                    continue
                for gp, off in sites:
                    b2, _k = site_blocks[id(gp)]
                    k = [j for j, x in enumerate(b2) if x is gp][0]
                    gp.value = ast.copy_location(ast.Name(id=Q, ctx=ast.Load()), gp.value)
                    if off == 1:
                        pop = ast.Expr(value=ast.Call(func=ast.Attribute(
                            value=ast.Name(id=Q, ctx=ast.Load()), attr='pop', ctx=ast.Load()),
                            args=[ast.Constant(value=0)], keywords=[]))
                        b2.insert(k, ast.copy_location(pop, gp))
                head = ast.Assign(targets=[lp.target.elts[1]], value=ast.Subscript(
                    value=ast.Name(id=Q, ctx=ast.Load()), slice=ast.Constant(value=0), ctx=ast.Load()))
                tail = ast.Expr(value=ast.Call(func=ast.Attribute(
                    value=ast.Name(id=Q, ctx=ast.Load()), attr='pop', ctx=ast.Load()),
                    args=[ast.Constant(value=0)], keywords=[]))
                body = [ast.copy_location(head, lp)] + lp.body
                if not _is_jump(body[-1]):
                    body.append(ast.copy_location(tail, lp))
                wl = ast.copy_location(ast.While(test=ast.Name(id=Q, ctx=ast.Load()), body=body, orelse=[]), lp)
                j = [k for k, x in enumerate(blk) if x is lp][0]
                blk[j] = wl
                ast.fix_missing_locations(fn)
                # names that are the queue
                xs = {gp.targets[0].id for gp, _off in sites}
                for X in xs:
                    defs = [n for n in _walk(fn) if isinstance(n, ast.Assign) and
                            any(isinstance(t, ast.Name) and t.id == X for t in n.targets)]
                    other = [n for n in _walk(fn) if isinstance(n, ast.Name) and n.id == X and
                             isinstance(n.ctx, (ast.Store, ast.Del)) and
                             not any(n in d.targets for d in defs)]
                    good = not other
                    after = blk[j + 1] if j + 1 < len(blk) else None
                    for d in defs:
                        if len(d.targets) != 1:
                            good = False
                        elif isinstance(d.value, ast.Name) and d.value.id == Q:
                            pass
                        elif isinstance(d.value, ast.List) and not d.value.elts and d is after:
                            pass
                        else:
                            good = False
                    if not good:
                        continue
                    for n in _walk(fn):
                        if isinstance(n, ast.Name) and n.id == X and isinstance(n.ctx, ast.Load):
                            n.id = Q
                    for b3, _o in _fn_blocks(fn):
                        b3[:] = [x for x in b3 if not any(x is d for d in defs)] or [ast.Pass()]
                    ast.fix_missing_locations(fn)


def canonicalise(tree, modname, log=None):
    """rename, in place, the locals that play the roles of TABLE to their canonical names"""
    orient_comparisons(tree)
    split_parallel_assign(tree)
    unzip_pairs(tree)
    loops_to_comprehensions(tree)
    countdown_loops(tree)
    index_walk_to_queue(tree)
    inline_loop_iterables(tree)
    for qual, roles in TABLE.items():
        mod, _, rest = qual.partition('.')
        if mod != modname:
            continue
        fn = _find_func(tree, rest.split('.'))
        if fn is None or isinstance(fn, ast.ClassDef):
            continue
        for canon, finder in roles:
            try:
                cur = finder(fn)
            except Exception:
                cur = None
            if cur is None or cur == canon:
                continue
            params = {a.arg for a in fn.args.posonlyargs + fn.args.args + fn.args.kwonlyargs}
            if cur in params or canon in _names_in(fn):
                continue            # not a plain local, or the canonical name means something else here
            for n in ast.walk(fn):
                if isinstance(n, ast.Name) and n.id == cur:
                    n.id = canon
                elif isinstance(n, ast.ExceptHandler) and n.name == cur:
                    n.name = canon
            if log is not None:
                log.append((qual, cur, canon))
    return tree
