"""T0b -- role table for locals.

A handful of rules name a local variable of the analysed code when they describe what they look at
(``options.at_level`` in get_options, the command-line list ``args`` of the child, ``unvisited`` /
``state`` / ``stack`` in DiGraph.sccs ...).  Names are not what decides a property, so before the
source model is built the locals that PLAY these roles are found by what they do (def-use facts,
never their spelling) and given the name the rules use.  If a role cannot be found nothing is
renamed and the rule reports what it always reported for an unknown shape.

Each entry:  qualified function -> [(canonical name, finder(function node) -> current name or None)].
Discovered mechanically: tools/alpha_single.py renames one local at a time and lists the checks that
stop being green; this table is what was left after the rules were made role based where that was
simpler.
"""
import ast


def _dotted(e):
    parts = []
    while isinstance(e, ast.Attribute):
        parts.append(e.attr)
        e = e.value
    if isinstance(e, ast.Name):
        parts.append(e.id)
        return '.'.join(reversed(parts))
    return None


def _walk(fn):
    todo = list(fn.body)
    while todo:
        n = todo.pop()
        yield n
        if isinstance(n, (ast.FunctionDef, ast.AsyncFunctionDef, ast.ClassDef, ast.Lambda)):
            continue
        todo.extend(ast.iter_child_nodes(n))


def _assigned_from(fn, pred):
    """name of the (single) local assigned by ``name = <value satisfying pred>``"""
    out = []
    for n in _walk(fn):
        if isinstance(n, ast.Assign) and len(n.targets) == 1 and isinstance(n.targets[0], ast.Name) \
                and pred(n.value):
            if n.targets[0].id not in out:
                out.append(n.targets[0].id)
    return out[0] if len(out) == 1 else None


def _call_named(v, *names):
    return isinstance(v, ast.Call) and (_dotted(v.func) or '').split('.')[-1] in names


# ---- finders ---------------------------------------------------------------------------------

def returned_name(fn):
    """the local the function returns (``return options``)"""
    rets = [n for n in _walk(fn) if isinstance(n, ast.Return) and n.value is not None]
    names = {n.value.id for n in rets if isinstance(n.value, ast.Name)}
    return names.pop() if len(names) == 1 and len(rets) and all(
        isinstance(n.value, ast.Name) for n in rets) else None


def options_of_configure(fn):
    """``self.options = X`` / X = get_options(...)"""
    for n in _walk(fn):
        if isinstance(n, ast.Assign) and any(_dotted(t) == 'self.options' for t in n.targets) and \
                isinstance(n.value, ast.Name):
            return n.value.id
    return _assigned_from(fn, lambda v: _call_named(v, 'get_options'))


def alias_of(dotted_text):
    def f(fn):
        return _assigned_from(fn, lambda v: _dotted(v) == dotted_text)
    return f


def popen_args(fn):
    """the list handed to subprocess.Popen as command line"""
    for n in _walk(fn):
        if _call_named(n, 'Popen') and n.args and isinstance(n.args[0], ast.Name):
            return n.args[0].id
    return None


def collector_factory(fn):
    """the local bound to one of the *SubprocessResult classes and called to make a result"""
    def is_cls(v):
        return isinstance(v, ast.Name) and v.id.endswith('SubprocessResult')
    out = set()
    for n in _walk(fn):
        if isinstance(n, ast.Assign) and len(n.targets) == 1 and isinstance(n.targets[0], ast.Name) \
                and is_cls(n.value):
            out.add(n.targets[0].id)
    return out.pop() if len(out) == 1 else None


def feature_loop_var(fn):
    """loop variable of the loops over self.features (all the same name)"""
    names = set()
    for n in _walk(fn):
        if isinstance(n, ast.For) and isinstance(n.target, ast.Name) and \
                'self.features' in ast.unparse(n.iter):
            names.add(n.target.id)
    return names.pop() if len(names) == 1 else None


def imported_module_name(fn):
    """the local passed to import_name(...)"""
    for n in _walk(fn):
        if _call_named(n, 'import_name') and len(n.args) == 1 and isinstance(n.args[0], ast.Name):
            return n.args[0].id
    return None


def suites_loop_value(fn):
    """second loop variable of ``for name, suite in self._testSuites.items()``"""
    for n in _walk(fn):
        if isinstance(n, ast.For) and isinstance(n.target, ast.Tuple) and len(n.target.elts) == 2 and \
                '_testSuites' in ast.unparse(n.iter) and isinstance(n.target.elts[1], ast.Name):
            return n.target.elts[1].id
    return None


def record_field(field):
    """local handed to TestCaseInfo(...) for *field* (keyword, or position in the dataclass order
    test, time, testClassName, testName, failure, error)"""
    order = ['test', 'time', 'testClassName', 'testName', 'failure', 'error']

    def f(fn):
        for n in _walk(fn):
            if _call_named(n, 'TestCaseInfo'):
                for k in n.keywords:
                    if k.arg == field and isinstance(k.value, ast.Name):
                        return k.value.id
                i = order.index(field)
                if i < len(n.args) and isinstance(n.args[i], ast.Name):
                    return n.args[i].id
        return None
    return f


# ---- DiGraph.sccs ------------------------------------------------------------------------

def scc_unvisited(fn):
    """the working copy of the node set: X = self._nodes.copy() / set(self._nodes)"""
    return _assigned_from(fn, lambda v: ast.unparse(v) in ('self._nodes.copy()', 'set(self._nodes)'))


def scc_state(fn):
    """the map node -> state object: the name subscripted on the left of ``X[n] = Cls(...)``"""
    for n in _walk(fn):
        if isinstance(n, ast.Assign) and isinstance(n.value, ast.Call) and \
                isinstance(n.value.func, ast.Name):
            for t in n.targets:
                if isinstance(t, ast.Subscript) and isinstance(t.value, ast.Name) and \
                        isinstance(t.slice, ast.Name):
                    return t.value.id
    return None


def scc_visits(fn):
    """the work list: extended with the neighbours of a node"""
    for n in _walk(fn):
        if isinstance(n, ast.Call) and isinstance(n.func, ast.Attribute) and n.func.attr == 'extend' \
                and isinstance(n.func.value, ast.Name) and n.args and '_neighbors' in ast.unparse(n.args[0]):
            return n.func.value.id
    return None


def scc_stack(fn):
    """the Tarjan stack: the list whose popped element gets ``<state>[x].stacked = False``"""
    pops = {}
    for n in _walk(fn):
        if isinstance(n, ast.Assign) and len(n.targets) == 1 and isinstance(n.targets[0], ast.Name) and \
                isinstance(n.value, ast.Call) and isinstance(n.value.func, ast.Attribute) and \
                n.value.func.attr == 'pop' and not n.value.args and isinstance(n.value.func.value, ast.Name):
            pops[n.targets[0].id] = n.value.func.value.id
    for n in _walk(fn):
        if isinstance(n, ast.Assign) and isinstance(n.value, ast.Constant) and n.value.value is False:
            for t in n.targets:
                if isinstance(t, ast.Attribute) and t.attr == 'stacked' and \
                        isinstance(t.value, ast.Subscript) and isinstance(t.value.slice, ast.Name) and \
                        t.value.slice.id in pops:
                    return pops[t.value.slice.id]
    return None


def scc_component(fn):
    """the list a component is collected in: receives the elements popped off the stack"""
    st = scc_stack(fn)
    popped = set()
    for n in _walk(fn):
        if isinstance(n, ast.Assign) and len(n.targets) == 1 and isinstance(n.targets[0], ast.Name) and \
                isinstance(n.value, ast.Call) and isinstance(n.value.func, ast.Attribute) and \
                n.value.func.attr == 'pop' and _dotted(n.value.func.value) == st:
            popped.add(n.targets[0].id)
    for n in _walk(fn):
        if isinstance(n, ast.Call) and isinstance(n.func, ast.Attribute) and n.func.attr == 'append' and \
                isinstance(n.func.value, ast.Name) and len(n.args) == 1 and \
                isinstance(n.args[0], ast.Name) and n.args[0].id in popped:
            return n.func.value.id
    return None


TABLE = {
    'options.get_options': [('options', returned_name)],
    'runner.Runner.configure': [('options', options_of_configure)],
    'filter.Filter.global_setup': [('options', alias_of('self.runner.options'))],
    'runner.spawn_layer_in_subprocess': [('args', popen_args)],
    'runner.resume_tests': [('result_factory', collector_factory)],
    'runner.Runner.run': [('feature', feature_loop_var)],
    'find.find_suites': [('module_name', imported_module_name)],
    'formatter.XMLOutputFormattingWrapper.writeXMLReports': [('suite', suites_loop_value)],
    'formatter.XMLOutputFormattingWrapper._record': [('testClassName', record_field('testClassName')),
                                                    ('testName', record_field('testName'))],
    'digraph.DiGraph.sccs': [('unvisited', scc_unvisited), ('state', scc_state), ('visits', scc_visits),
                             ('stack', scc_stack), ('scc', scc_component)],
}


def _find_func(tree, parts):
    body = tree.body
    node = None
    for p in parts:
        node = None
        for n in body:
            if isinstance(n, (ast.FunctionDef, ast.AsyncFunctionDef, ast.ClassDef)) and n.name == p:
                node = n
        if node is None:
            return None
        body = node.body
    return node


def _names_in(fn):
    out = set()
    for n in ast.walk(fn):
        if isinstance(n, ast.Name):
            out.add(n.id)
        elif isinstance(n, ast.arg):
            out.add(n.arg)
        elif isinstance(n, ast.ExceptHandler) and n.name:
            out.add(n.name)
    return out


_FLIP = {ast.Lt: ast.Gt, ast.Gt: ast.Lt, ast.LtE: ast.GtE, ast.GtE: ast.LtE, ast.Eq: ast.Eq,
         ast.NotEq: ast.NotEq}


def orient_comparisons(tree):
    """one spelling for ``1 < x`` / ``x > 1`` and ``UnitTests != ly`` / ``ly != UnitTests``: in a single
    comparison the more constant operand goes to the right (literal > module-level name > anything
    that involves a local, a parameter or self).  Operands with calls are left alone (evaluation
    order)."""
    def locals_of(fn):
        out = set()
        for n in ast.walk(fn):
            if isinstance(n, ast.Name) and isinstance(n.ctx, (ast.Store, ast.Del)):
                out.add(n.id)
            elif isinstance(n, ast.arg):
                out.add(n.arg)
            elif isinstance(n, ast.ExceptHandler) and n.name:
                out.add(n.name)
        return out

    def rank(e, bound):
        if isinstance(e, ast.Constant):
            return 3
        names = [x.id for x in ast.walk(e) if isinstance(x, ast.Name)]
        if any(isinstance(x, (ast.Call, ast.Await, ast.Yield, ast.NamedExpr, ast.Subscript))
               for x in ast.walk(e)):
            return 0
        if names and all(nm not in bound and nm != 'self' for nm in names):
            return 2
        return 1

    def visit(node, bound):
        for c in ast.iter_child_nodes(node):
            b = bound
            if isinstance(c, (ast.FunctionDef, ast.AsyncFunctionDef, ast.Lambda)):
                b = bound | locals_of(c)
            visit(c, b)
            if isinstance(c, ast.Compare) and len(c.ops) == 1 and type(c.ops[0]) in _FLIP:
                l, r = c.left, c.comparators[0]
                rl, rr = rank(l, b), rank(r, b)
                if rl and rr and rl > rr:
                    c.left, c.comparators, c.ops = r, [l], [_FLIP[type(c.ops[0])]()]
    visit(tree, set())
    return tree


def split_parallel_assign(tree):
    """``a, b = x, y`` -> ``a = x; b = y`` when that is the same thing: no element of the right-hand
    side that is evaluated later mentions a location assigned earlier (so a swap stays as it is)"""
    def texts(e):
        return {ast.unparse(x) for x in ast.walk(e) if isinstance(x, (ast.Name, ast.Attribute, ast.Subscript))}

    def visit(body):
        i = 0
        while i < len(body):
            st = body[i]
            for fld in ('body', 'orelse', 'finalbody'):
                sub = getattr(st, fld, None)
                if isinstance(sub, list) and sub and isinstance(sub[0], ast.stmt):
                    visit(sub)
            for h in getattr(st, 'handlers', []) or []:
                visit(h.body)
            if isinstance(st, ast.Assign) and len(st.targets) == 1 and \
                    isinstance(st.targets[0], (ast.Tuple, ast.List)) and \
                    isinstance(st.value, (ast.Tuple, ast.List)) and \
                    len(st.targets[0].elts) == len(st.value.elts) and \
                    not any(isinstance(e, ast.Starred) for e in st.targets[0].elts + st.value.elts):
                ts, vs = st.targets[0].elts, st.value.elts
                safe = all(ast.unparse(ts[a]) not in texts(vs[b]) and
                           not any(ast.unparse(ts[a]).startswith(x + '.') or x.startswith(ast.unparse(ts[a]) + '.')
                                   for x in texts(vs[b]))
                           for a in range(len(ts)) for b in range(a + 1, len(ts)))
                if safe:
                    new = [ast.copy_location(ast.Assign(targets=[t], value=v), st) for t, v in zip(ts, vs)]
                    body[i:i + 1] = new
                    i += len(new)
                    continue
            i += 1
    visit(tree.body)
    return tree


_ITER_WRAPPERS = ('enumerate', 'zip', 'reversed', 'iter', 'sorted', 'list', 'tuple', 'range')


def inline_loop_iterables(tree):
    """``it = enumerate(xs, k)`` directly followed by ``for ... in it:`` (the only read of *it*):
    the iterable is written into the for statement"""
    for fn in [n for n in ast.walk(tree) if isinstance(n, (ast.FunctionDef, ast.AsyncFunctionDef))]:
        reads, writes = {}, {}
        for n in ast.walk(fn):
            if isinstance(n, ast.Name):
                d = reads if isinstance(n.ctx, ast.Load) else writes
                d[n.id] = d.get(n.id, 0) + 1

        def visit(body):
            i = 0
            while i + 1 < len(body):
                a, b = body[i], body[i + 1]
                if isinstance(a, ast.Assign) and len(a.targets) == 1 and isinstance(a.targets[0], ast.Name) \
                        and isinstance(a.value, ast.Call) and isinstance(a.value.func, ast.Name) and \
                        a.value.func.id in _ITER_WRAPPERS and isinstance(b, ast.For) and \
                        isinstance(b.iter, ast.Name) and b.iter.id == a.targets[0].id and \
                        reads.get(b.iter.id) == 1 and writes.get(b.iter.id) == 1:
                    b.iter = a.value
                    del body[i]
                    continue
                i += 1
            for st in body:
                for fld in ('body', 'orelse', 'finalbody'):
                    sub = getattr(st, fld, None)
                    if isinstance(sub, list) and sub and isinstance(sub[0], ast.stmt) and \
                            not isinstance(st, (ast.FunctionDef, ast.AsyncFunctionDef, ast.ClassDef)):
                        visit(sub)
                for h in getattr(st, 'handlers', []) or []:
                    visit(h.body)
        visit(fn.body)
    return tree


def canonicalise(tree, modname, log=None):
    """rename, in place, the locals that play the roles of TABLE to their canonical names"""
    orient_comparisons(tree)
    split_parallel_assign(tree)
    inline_loop_iterables(tree)
    for qual, roles in TABLE.items():
        mod, _, rest = qual.partition('.')
        if mod != modname:
            continue
        fn = _find_func(tree, rest.split('.'))
        if fn is None or isinstance(fn, ast.ClassDef):
            continue
        for canon, finder in roles:
            try:
                cur = finder(fn)
            except Exception:
                cur = None
            if cur is None or cur == canon:
                continue
            params = {a.arg for a in fn.args.posonlyargs + fn.args.args + fn.args.kwonlyargs}
            if cur in params or canon in _names_in(fn):
                continue            # not a plain local, or the canonical name means something else here
            for n in ast.walk(fn):
                if isinstance(n, ast.Name) and n.id == cur:
                    n.id = canon
                elif isinstance(n, ast.ExceptHandler) and n.name == cur:
                    n.name = canon
            if log is not None:
                log.append((qual, cur, canon))
    return tree
