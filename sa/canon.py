"""T0b -- role table for locals.

A handful of rules name a local variable of the analysed code when they describe what they look at
(``options.at_level`` in get_options, the command-line list ``args`` of the child, ``unvisited`` /
``state`` / ``stack`` in DiGraph.sccs ...).  Names are not what decides a property, so before the
source model is built the locals that PLAY these roles are found by what they do (def-use facts,
never their spelling) and given the name the rules use.  If a role cannot be found nothing is
renamed and the rule reports what it always reported for an unknown shape.

Each entry:  qualified function -> [(canonical name, finder(function node) -> current name or None)].
Discovered mechanically: tools/alpha_single.py renames one local at a time and lists the checks that
stop being green; this table is what was left after the rules were made role based where that was
simpler.
"""
import ast


def _dotted(e):
    parts = []
    while isinstance(e, ast.Attribute):
        parts.append(e.attr)
        e = e.value
    if isinstance(e, ast.Name):
        parts.append(e.id)
        return '.'.join(reversed(parts))
    return None


def _walk(fn):
    todo = list(fn.body)
    while todo:
        n = todo.pop()
        yield n
        if isinstance(n, (ast.FunctionDef, ast.AsyncFunctionDef, ast.ClassDef, ast.Lambda)):
            continue
        todo.extend(ast.iter_child_nodes(n))


def _assigned_from(fn, pred):
    """name of the (single) local assigned by ``name = <value satisfying pred>``"""
    out = []
    for n in _walk(fn):
        if isinstance(n, ast.Assign) and len(n.targets) == 1 and isinstance(n.targets[0], ast.Name) \
                and pred(n.value):
            if n.targets[0].id not in out:
                out.append(n.targets[0].id)
    return out[0] if len(out) == 1 else None


def _call_named(v, *names):
    return isinstance(v, ast.Call) and (_dotted(v.func) or '').split('.')[-1] in names


# ---- finders ---------------------------------------------------------------------------------

def returned_name(fn):
    """the local the function returns (``return options``)"""
    rets = [n for n in _walk(fn) if isinstance(n, ast.Return) and n.value is not None]
    names = {n.value.id for n in rets if isinstance(n.value, ast.Name)}
    return names.pop() if len(names) == 1 and len(rets) and all(
        isinstance(n.value, ast.Name) for n in rets) else None


def options_of_configure(fn):
    """``self.options = X`` / X = get_options(...)"""
    for n in _walk(fn):
        if isinstance(n, ast.Assign) and any(_dotted(t) == 'self.options' for t in n.targets) and \
                isinstance(n.value, ast.Name):
            return n.value.id
    return _assigned_from(fn, lambda v: _call_named(v, 'get_options'))


def alias_of(dotted_text):
    def f(fn):
        return _assigned_from(fn, lambda v: _dotted(v) == dotted_text)
    return f


def popen_args(fn):
    """the list handed to subprocess.Popen as command line"""
    for n in _walk(fn):
        if _call_named(n, 'Popen') and n.args and isinstance(n.args[0], ast.Name):
            return n.args[0].id
    return None


def collector_factory(fn):
    """the local bound to one of the *SubprocessResult classes and called to make a result"""
    def is_cls(v):
        return isinstance(v, ast.Name) and v.id.endswith('SubprocessResult')
    out = set()
    for n in _walk(fn):
        if isinstance(n, ast.Assign) and len(n.targets) == 1 and isinstance(n.targets[0], ast.Name) \
                and is_cls(n.value):
            out.add(n.targets[0].id)
    return out.pop() if len(out) == 1 else None


def feature_loop_var(fn):
    """loop variable of the loops over self.features (all the same name)"""
    names = set()
    for n in _walk(fn):
        if isinstance(n, ast.For) and isinstance(n.target, ast.Name) and \
                'self.features' in ast.unparse(n.iter):
            names.add(n.target.id)
    return names.pop() if len(names) == 1 else None


def imported_module_name(fn):
    """the local passed to import_name(...)"""
    for n in _walk(fn):
        if _call_named(n, 'import_name') and len(n.args) == 1 and isinstance(n.args[0], ast.Name):
            return n.args[0].id
    return None


def suites_loop_value(fn):
    """second loop variable of ``for name, suite in self._testSuites.items()``"""
    for n in _walk(fn):
        if isinstance(n, ast.For) and isinstance(n.target, ast.Tuple) and len(n.target.elts) == 2 and \
                '_testSuites' in ast.unparse(n.iter) and isinstance(n.target.elts[1], ast.Name):
            return n.target.elts[1].id
    return None


def record_field(field):
    """local handed to TestCaseInfo(...) for *field* (keyword, or position in the dataclass order
    test, time, testClassName, testName, failure, error)"""
    order = ['test', 'time', 'testClassName', 'testName', 'failure', 'error']

    def f(fn):
        for n in _walk(fn):
            if _call_named(n, 'TestCaseInfo'):
                for k in n.keywords:
                    if k.arg == field and isinstance(k.value, ast.Name):
                        return k.value.id
                i = order.index(field)
                if i < len(n.args) and isinstance(n.args[i], ast.Name):
                    return n.args[i].id
        return None
    return f


# ---- DiGraph.sccs ------------------------------------------------------------------------

def scc_unvisited(fn):
    """the working copy of the node set: X = self._nodes.copy() / set(self._nodes)"""
    return _assigned_from(fn, lambda v: ast.unparse(v) in ('self._nodes.copy()', 'set(self._nodes)'))


def scc_state(fn):
    """the map node -> state object: the name subscripted on the left of ``X[n] = Cls(...)``"""
    for n in _walk(fn):
        if isinstance(n, ast.Assign) and isinstance(n.value, ast.Call) and \
                isinstance(n.value.func, ast.Name):
            for t in n.targets:
                if isinstance(t, ast.Subscript) and isinstance(t.value, ast.Name) and \
                        isinstance(t.slice, ast.Name):
                    return t.value.id
    return None


def scc_visits(fn):
    """the work list: extended with the neighbours of a node"""
    for n in _walk(fn):
        if isinstance(n, ast.Call) and isinstance(n.func, ast.Attribute) and n.func.attr == 'extend' \
                and isinstance(n.func.value, ast.Name) and n.args and '_neighbors' in ast.unparse(n.args[0]):
            return n.func.value.id
    return None


def scc_stack(fn):
    """the Tarjan stack: the list whose popped element gets ``<state>[x].stacked = False``"""
    pops = {}
    for n in _walk(fn):
        if isinstance(n, ast.Assign) and len(n.targets) == 1 and isinstance(n.targets[0], ast.Name) and \
                isinstance(n.value, ast.Call) and isinstance(n.value.func, ast.Attribute) and \
                n.value.func.attr == 'pop' and not n.value.args and isinstance(n.value.func.value, ast.Name):
            pops[n.targets[0].id] = n.value.func.value.id
    for n in _walk(fn):
        if isinstance(n, ast.Assign) and isinstance(n.value, ast.Constant) and n.value.value is False:
            for t in n.targets:
                if isinstance(t, ast.Attribute) and t.attr == 'stacked' and \
                        isinstance(t.value, ast.Subscript) and isinstance(t.value.slice, ast.Name) and \
                        t.value.slice.id in pops:
                    return pops[t.value.slice.id]
    return None


def scc_component(fn):
    """the list a component is collected in: receives the elements popped off the stack"""
    st = scc_stack(fn)
    popped = set()
    for n in _walk(fn):
        if isinstance(n, ast.Assign) and len(n.targets) == 1 and isinstance(n.targets[0], ast.Name) and \
                isinstance(n.value, ast.Call) and isinstance(n.value.func, ast.Attribute) and \
                n.value.func.attr == 'pop' and _dotted(n.value.func.value) == st:
            popped.add(n.targets[0].id)
    for n in _walk(fn):
        if isinstance(n, ast.Call) and isinstance(n.func, ast.Attribute) and n.func.attr == 'append' and \
                isinstance(n.func.value, ast.Name) and len(n.args) == 1 and \
                isinstance(n.args[0], ast.Name) and n.args[0].id in popped:
            return n.func.value.id
    return None


TABLE = {
    'options.get_options': [('options', returned_name)],
    'runner.Runner.configure': [('options', options_of_configure)],
    'filter.Filter.global_setup': [('options', alias_of('self.runner.options'))],
    'runner.spawn_layer_in_subprocess': [('args', popen_args)],
    'runner.resume_tests': [('result_factory', collector_factory)],
    'runner.Runner.run': [('feature', feature_loop_var)],
    'find.find_suites': [('module_name', imported_module_name)],
    'formatter.XMLOutputFormattingWrapper.writeXMLReports': [('suite', suites_loop_value)],
    'formatter.XMLOutputFormattingWrapper._record': [('testClassName', record_field('testClassName')),
                                                    ('testName', record_field('testName'))],
    'digraph.DiGraph.sccs': [('unvisited', scc_unvisited), ('state', scc_state), ('visits', scc_visits),
                             ('stack', scc_stack), ('scc', scc_component)],
}


def _find_func(tree, parts):
    body = tree.body
    node = None
    for p in parts:
        node = None
        for n in body:
            if isinstance(n, (ast.FunctionDef, ast.AsyncFunctionDef, ast.ClassDef)) and n.name == p:
                node = n
        if node is None:
            return None
        body = node.body
    return node


def _names_in(fn):
    out = set()
    for n in ast.walk(fn):
        if isinstance(n, ast.Name):
            out.add(n.id)
        elif isinstance(n, ast.arg):
            out.add(n.arg)
        elif isinstance(n, ast.ExceptHandler) and n.name:
            out.add(n.name)
    return out


_FLIP = {ast.Lt: ast.Gt, ast.Gt: ast.Lt, ast.LtE: ast.GtE, ast.GtE: ast.LtE, ast.Eq: ast.Eq,
         ast.NotEq: ast.NotEq}


def orient_comparisons(tree):
    """one spelling for ``1 < x`` / ``x > 1`` and ``UnitTests != ly`` / ``ly != UnitTests``: in a single
    comparison the more constant operand goes to the right (literal > module-level name > anything
    that involves a local, a parameter or self).  Operands with calls are left alone (evaluation
    order)."""
    def locals_of(fn):
        out = set()
        for n in ast.walk(fn):
            if isinstance(n, ast.Name) and isinstance(n.ctx, (ast.Store, ast.Del)):
                out.add(n.id)
            elif isinstance(n, ast.arg):
                out.add(n.arg)
            elif isinstance(n, ast.ExceptHandler) and n.name:
                out.add(n.name)
        return out

    def rank(e, bound):
        if isinstance(e, ast.Constant):
            return 3
        names = [x.id for x in ast.walk(e) if isinstance(x, ast.Name)]
        if any(isinstance(x, (ast.Call, ast.Await, ast.Yield, ast.NamedExpr, ast.Subscript))
               for x in ast.walk(e)):
            return 0
        if names and all(nm not in bound and nm != 'self' for nm in names):
            return 2
        return 1

    def visit(node, bound):
        for c in ast.iter_child_nodes(node):
            b = bound
            if isinstance(c, (ast.FunctionDef, ast.AsyncFunctionDef, ast.Lambda)):
                b = bound | locals_of(c)
            visit(c, b)
            if isinstance(c, ast.Compare) and len(c.ops) == 1 and type(c.ops[0]) in _FLIP:
                l, r = c.left, c.comparators[0]
                rl, rr = rank(l, b), rank(r, b)
                if rl and rr and rl > rr:
                    c.left, c.comparators, c.ops = r, [l], [_FLIP[type(c.ops[0])]()]
    visit(tree, set())
    return tree


def split_parallel_assign(tree):
    """``a, b = x, y`` -> ``a = x; b = y`` when that is the same thing: no element of the right-hand
    side that is evaluated later mentions a location assigned earlier (so a swap stays as it is)"""
    def texts(e):
        return {ast.unparse(x) for x in ast.walk(e) if isinstance(x, (ast.Name, ast.Attribute, ast.Subscript))}

    def visit(body):
        i = 0
        while i < len(body):
            st = body[i]
            for fld in ('body', 'orelse', 'finalbody'):
                sub = getattr(st, fld, None)
                if isinstance(sub, list) and sub and isinstance(sub[0], ast.stmt):
                    visit(sub)
            for h in getattr(st, 'handlers', []) or []:
                visit(h.body)
            if isinstance(st, ast.Assign) and len(st.targets) == 1 and \
                    isinstance(st.targets[0], (ast.Tuple, ast.List)) and \
                    isinstance(st.value, (ast.Tuple, ast.List)) and \
                    len(st.targets[0].elts) == len(st.value.elts) and \
                    not any(isinstance(e, ast.Starred) for e in st.targets[0].elts + st.value.elts):
                ts, vs = st.targets[0].elts, st.value.elts
                safe = all(ast.unparse(ts[a]) not in texts(vs[b]) and
                           not any(ast.unparse(ts[a]).startswith(x + '.') or x.startswith(ast.unparse(ts[a]) + '.')
                                   for x in texts(vs[b]))
                           for a in range(len(ts)) for b in range(a + 1, len(ts)))
                if safe:
                    new = [ast.copy_location(ast.Assign(targets=[t], value=v), st) for t, v in zip(ts, vs)]
                    body[i:i + 1] = new
                    i += len(new)
                    continue
            i += 1
    visit(tree.body)
    return tree


_ITER_WRAPPERS = ('enumerate', 'zip', 'reversed', 'iter', 'sorted', 'list', 'tuple', 'range')


def inline_loop_iterables(tree):
    """``it = enumerate(xs, k)`` directly followed by ``for ... in it:`` (the only read of *it*):
    the iterable is written into the for statement"""
    for fn in [n for n in ast.walk(tree) if isinstance(n, (ast.FunctionDef, ast.AsyncFunctionDef))]:
        reads, writes = {}, {}
        for n in ast.walk(fn):
            if isinstance(n, ast.Name):
                d = reads if isinstance(n.ctx, ast.Load) else writes
                d[n.id] = d.get(n.id, 0) + 1

        def visit(body):
            i = 0
            while i + 1 < len(body):
                a, b = body[i], body[i + 1]
                if isinstance(a, ast.Assign) and len(a.targets) == 1 and isinstance(a.targets[0], ast.Name) \
                        and isinstance(a.value, ast.Call) and isinstance(a.value.func, ast.Name) and \
                        a.value.func.id in _ITER_WRAPPERS and isinstance(b, ast.For) and \
                        isinstance(b.iter, ast.Name) and b.iter.id == a.targets[0].id and \
                        reads.get(b.iter.id) == 1 and writes.get(b.iter.id) == 1:
                    b.iter = a.value
                    del body[i]
                    continue
                i += 1
            for st in body:
                for fld in ('body', 'orelse', 'finalbody'):
                    sub = getattr(st, fld, None)
                    if isinstance(sub, list) and sub and isinstance(sub[0], ast.stmt) and \
                            not isinstance(st, (ast.FunctionDef, ast.AsyncFunctionDef, ast.ClassDef)):
                        visit(sub)
                for h in getattr(st, 'handlers', []) or []:
                    visit(h.body)
        visit(fn.body)
    return tree


def _fn_blocks(node):
    """every statement list inside *node* (not entering nested definitions): (list, owner)"""
    for fld in ('body', 'orelse', 'finalbody'):
        sub = getattr(node, fld, None)
        if isinstance(sub, list) and sub and isinstance(sub[0], ast.stmt):
            yield sub, node
            for s_ in sub:
                if not isinstance(s_, (ast.FunctionDef, ast.AsyncFunctionDef, ast.ClassDef)):
                    yield from _fn_blocks(s_)
    for h in getattr(node, 'handlers', None) or []:
        yield from _fn_blocks(h)


def unzip_pairs(tree):
    """A local list J that only collects tuples (``J.append((a, b))``) and is only ever read by
    projections ``X = [a for a, b in J]`` / ``X = deque(b for a, b in J)`` is a zipped pair of
    lists: each projection target becomes its own list, filled where J was filled.  Canonical form
    of "build parallel lists" -- behaviour-preserving because J has no other reader."""
    import copy
    for fn in [n for n in ast.walk(tree) if isinstance(n, (ast.FunctionDef, ast.AsyncFunctionDef))]:
        parents = {}
        for n in _walk(fn):
            for c in ast.iter_child_nodes(n):
                parents[id(c)] = n
        for c in ast.iter_child_nodes(fn):
            parents[id(c)] = fn
        cands = {}
        for n in _walk(fn):
            if isinstance(n, ast.Assign) and len(n.targets) == 1 and isinstance(n.targets[0], ast.Name) \
                    and isinstance(n.value, ast.List) and not n.value.elts:
                cands.setdefault(n.targets[0].id, []).append(n)
        for J, inits in cands.items():
            if len(inits) != 1:
                continue
            appends, projs, ok, width = [], [], True, None
            for n in _walk(fn):
                if not (isinstance(n, ast.Name) and n.id == J):
                    continue
                par = parents.get(id(n))
                gp = parents.get(id(par))
                if isinstance(n.ctx, ast.Store):
                    if par is not inits[0]:
                        ok = False
                    continue
                if isinstance(par, ast.Attribute) and par.attr == 'append' and isinstance(gp, ast.Call) \
                        and gp.func is par and len(gp.args) == 1 and isinstance(gp.args[0], ast.Tuple) \
                        and isinstance(parents.get(id(gp)), ast.Expr):
                    w = len(gp.args[0].elts)
                    if width not in (None, w):
                        ok = False
                    width = w
                    appends.append(parents.get(id(gp)))
                    continue
                if isinstance(par, ast.comprehension) and par.iter is n and not par.ifs and \
                        isinstance(par.target, ast.Tuple) and \
                        all(isinstance(e, ast.Name) for e in par.target.elts):
                    comp = parents.get(id(par))
                    if isinstance(comp, (ast.ListComp, ast.GeneratorExp)) and len(comp.generators) == 1 \
                            and isinstance(comp.elt, ast.Name) and \
                            comp.elt.id in [e.id for e in par.target.elts]:
                        k = [e.id for e in par.target.elts].index(comp.elt.id)
                        holder = parents.get(id(comp))
                        wrap = None
                        if isinstance(holder, ast.Call) and len(holder.args) == 1 and not holder.keywords \
                                and holder.args[0] is comp and \
                                (_dotted(holder.func) or '').split('.')[-1] in ('list', 'deque', 'tuple'):
                            wrap = holder
                            holder = parents.get(id(holder))
                        if isinstance(holder, ast.Assign) and len(holder.targets) == 1 and \
                                isinstance(holder.targets[0], ast.Name) and \
                                holder.value is (wrap or comp) and len(par.target.elts) == (width or len(par.target.elts)):
                            projs.append((holder, k, len(par.target.elts)))
                            continue
                ok = False
            if not ok or not appends or not projs or any(w != width for _h, _k, w in projs):
                continue
            targets = [h.targets[0].id for h, _k, _w in projs]
            if len(set(targets)) != len(targets):
                continue
            # the projection targets must not be used before their projection statement
            used_elsewhere = False
            for X in targets:
                stores = [n for n in _walk(fn) if isinstance(n, ast.Name) and n.id == X and
                          isinstance(n.ctx, ast.Store)]
                if len(stores) != 1:
                    used_elsewhere = True
            if used_elsewhere:
                continue
            # rewrite
            for blk, _owner in _fn_blocks(fn):
                i = 0
                while i < len(blk):
                    st = blk[i]
                    if st is inits[0]:
                        new = [ast.copy_location(ast.Assign(
                            targets=[ast.Name(id=X, ctx=ast.Store())], value=ast.List(elts=[], ctx=ast.Load())),
                            st) for X in targets]
                        blk[i:i + 1] = new
                        i += len(new)
                        continue
                    if any(st is a for a in appends):
                        tup = st.value.args[0]
                        new = []
                        for (h, k, _w), X in zip(projs, targets):
                            call = ast.Call(func=ast.Attribute(value=ast.Name(id=X, ctx=ast.Load()),
                                                               attr='append', ctx=ast.Load()),
                                            args=[copy.deepcopy(tup.elts[k])], keywords=[])
                            new.append(ast.copy_location(ast.Expr(value=call), st))
                        blk[i:i + 1] = new
                        i += len(new)
                        continue
                    if any(st is h for h, _k, _w in projs):
                        del blk[i]
                        continue
                    i += 1
            ast.fix_missing_locations(fn)


def _only_continue_guards(stmts):
    return all(isinstance(g, ast.If) and not g.orelse and len(g.body) == 1 and
               isinstance(g.body[0], ast.Continue) for g in stmts)


def _negated(e):
    """the negation of a condition, simplified: not not x -> x, a in b <-> a not in b, is / is not,
    == / !=, ordering comparisons flipped"""
    if isinstance(e, ast.UnaryOp) and isinstance(e.op, ast.Not):
        return e.operand
    if isinstance(e, ast.Compare) and len(e.ops) == 1:
        flip = {ast.In: ast.NotIn, ast.NotIn: ast.In, ast.Is: ast.IsNot, ast.IsNot: ast.Is,
                ast.Eq: ast.NotEq, ast.NotEq: ast.Eq, ast.Lt: ast.GtE, ast.GtE: ast.Lt,
                ast.Gt: ast.LtE, ast.LtE: ast.Gt}
        return ast.copy_location(ast.Compare(left=e.left, ops=[flip[type(e.ops[0])]()],
                                             comparators=e.comparators), e)
    return ast.copy_location(ast.UnaryOp(op=ast.Not(), operand=e), e)


def loops_to_comprehensions(tree):
    """``L = []`` directly followed by ``for x in I: [if c:] L.append(e)`` (nothing else in the loop)
    is the list comprehension ``L = [e for x in I if c]``"""
    for fn in [n for n in ast.walk(tree) if isinstance(n, (ast.FunctionDef, ast.AsyncFunctionDef))]:
        for blk, _owner in _fn_blocks(fn):
            i = 0
            while i + 1 < len(blk):
                a, lp = blk[i], blk[i + 1]
                if isinstance(a, ast.Assign) and len(a.targets) == 1 and isinstance(a.targets[0], ast.Name) \
                        and isinstance(a.value, ast.List) and not a.value.elts and \
                        isinstance(lp, ast.For) and not lp.orelse and _only_continue_guards(lp.body[:-1]):
                    L = a.targets[0].id
                    inner = lp.body[-1]
                    # ``if c: continue`` in front of the append is the filter ``not c``
                    conds = [_negated(g.test) for g in lp.body[:-1]]
                    while isinstance(inner, ast.If) and not inner.orelse and len(inner.body) == 1:
                        conds.append(inner.test)
                        inner = inner.body[0]
                    if isinstance(inner, ast.Expr) and isinstance(inner.value, ast.Call) and \
                            isinstance(inner.value.func, ast.Attribute) and inner.value.func.attr == 'append' \
                            and isinstance(inner.value.func.value, ast.Name) and \
                            inner.value.func.value.id == L and len(inner.value.args) == 1 and \
                            not any(isinstance(x, ast.Name) and x.id == L
                                    for e in [lp.iter, inner.value.args[0]] + conds for x in ast.walk(e)) and \
                            not any(isinstance(x, (ast.Yield, ast.YieldFrom, ast.Await, ast.NamedExpr))
                                    for x in ast.walk(lp)):
                        comp = ast.ListComp(elt=inner.value.args[0], generators=[
                            ast.comprehension(target=lp.target, iter=lp.iter, ifs=conds, is_async=0)])
                        blk[i:i + 2] = [ast.copy_location(ast.Assign(targets=a.targets, value=comp), a)]
                        ast.fix_missing_locations(blk[i])
                        continue
                # ``D = {}`` directly followed by ``for x in I: D[K] = V`` (nothing else in the loop, D
                # not read in I / K / V) is the dict comprehension ``D = {K: V for x in I}``
                if isinstance(a, ast.Assign) and len(a.targets) == 1 and isinstance(a.targets[0], ast.Name) \
                        and isinstance(a.value, ast.Dict) and not a.value.keys and \
                        isinstance(lp, ast.For) and not lp.orelse and len(lp.body) == 1 and \
                        isinstance(lp.body[0], ast.Assign) and len(lp.body[0].targets) == 1 and \
                        isinstance(lp.body[0].targets[0], ast.Subscript) and \
                        isinstance(lp.body[0].targets[0].value, ast.Name) and \
                        lp.body[0].targets[0].value.id == a.targets[0].id:
                    D = a.targets[0].id
                    st_ = lp.body[0]
                    K, V = st_.targets[0].slice, st_.value
                    if not any(isinstance(x, ast.Name) and x.id == D for e in (lp.iter, K, V) for x in ast.walk(e)) \
                            and not any(isinstance(x, (ast.Yield, ast.YieldFrom, ast.Await, ast.NamedExpr))
                                        for x in ast.walk(lp)):
                        comp = ast.DictComp(key=K, value=V, generators=[
                            ast.comprehension(target=lp.target, iter=lp.iter, ifs=[], is_async=0)])
                        blk[i:i + 2] = [ast.copy_location(ast.Assign(targets=a.targets, value=comp), a)]
                        ast.fix_missing_locations(blk[i])
                        continue
                i += 1


def countdown_loops(tree):
    """``i = len(X)`` directly followed by ``while i > 0: i -= 1; BODY`` (BODY does not assign i, no
    else clause) visits i = len(X)-1 ... 0 with the length read once: ``for i in
    reversed(range(len(X))): BODY``"""
    for fn in [n for n in ast.walk(tree) if isinstance(n, (ast.FunctionDef, ast.AsyncFunctionDef))]:
        for blk, _owner in _fn_blocks(fn):
            i = 0
            while i + 1 < len(blk):
                a, lp = blk[i], blk[i + 1]
                if isinstance(a, ast.Assign) and len(a.targets) == 1 and isinstance(a.targets[0], ast.Name) \
                        and isinstance(a.value, ast.Call) and isinstance(a.value.func, ast.Name) and \
                        a.value.func.id == 'len' and len(a.value.args) == 1 and \
                        isinstance(lp, ast.While) and not lp.orelse and len(lp.body) >= 2:
                    v = a.targets[0].id
                    t = lp.test
                    test_ok = isinstance(t, ast.Compare) and len(t.ops) == 1 and (
                        (isinstance(t.ops[0], ast.Gt) and isinstance(t.left, ast.Name) and t.left.id == v
                         and isinstance(t.comparators[0], ast.Constant) and t.comparators[0].value == 0) or
                        (isinstance(t.ops[0], ast.Lt) and isinstance(t.comparators[0], ast.Name) and
                         t.comparators[0].id == v and isinstance(t.left, ast.Constant) and t.left.value == 0))
                    d = lp.body[0]
                    dec_ok = isinstance(d, ast.AugAssign) and isinstance(d.op, ast.Sub) and \
                        isinstance(d.target, ast.Name) and d.target.id == v and \
                        isinstance(d.value, ast.Constant) and d.value.value == 1
                    rest = lp.body[1:]
                    other = any(isinstance(x, ast.Name) and x.id == v and isinstance(x.ctx, (ast.Store, ast.Del))
                                for s_ in rest for x in ast.walk(s_))
                    # the variable must not be read after the loop (it would be 0 there, after a
                    # for loop it is the last index): only rewrite when it is dead afterwards
                    later = any(isinstance(x, ast.Name) and x.id == v for s_ in blk[i + 2:] for x in ast.walk(s_))
                    if test_ok and dec_ok and not other and not later:
                        it = ast.Call(func=ast.Name(id='reversed', ctx=ast.Load()), args=[
                            ast.Call(func=ast.Name(id='range', ctx=ast.Load()), args=[a.value], keywords=[])],
                            keywords=[])
                        new = ast.For(target=ast.Name(id=v, ctx=ast.Store()), iter=it, body=rest, orelse=[])
                        blk[i:i + 2] = [ast.fix_missing_locations(ast.copy_location(new, lp))]
                        continue
                i += 1


def _is_jump(st):
    return isinstance(st, (ast.Break, ast.Return, ast.Raise)) or (
        isinstance(st, ast.Expr) and isinstance(st.value, ast.Name) and
        st.value.id.startswith('__inline_return__'))


def index_walk_to_queue(tree):
    """``for i, T in enumerate(Q): BODY`` over a fresh local list Q where i is only used to name the
    rest of the list -- ``X = Q[i:]`` (from the current element on) and ``X = Q[i + 1:]`` (after
    it), each on a path that then leaves the loop -- is the queue walk
    ``while Q: T = Q[0]; BODY'; Q.pop(0)`` with ``X = Q`` / ``Q.pop(0); X = Q`` at those places.
    Q has no other reader, so consuming it is not observable.  A name X all of whose definitions
    are then ``X = Q`` (or ``X = []`` right after the loop, where Q is empty) IS the queue."""
    import copy
    for fn in [n for n in ast.walk(tree) if isinstance(n, (ast.FunctionDef, ast.AsyncFunctionDef))]:
        for blk, _owner in list(_fn_blocks(fn)):
            for pos, lp in enumerate(list(blk)):
                if not (isinstance(lp, ast.For) and not lp.orelse and isinstance(lp.iter, ast.Call) and
                        isinstance(lp.iter.func, ast.Name) and lp.iter.func.id == 'enumerate' and
                        len(lp.iter.args) == 1 and not lp.iter.keywords and
                        isinstance(lp.iter.args[0], ast.Name) and isinstance(lp.target, ast.Tuple) and
                        len(lp.target.elts) == 2 and isinstance(lp.target.elts[0], ast.Name)):
                    continue
                Q, i = lp.iter.args[0].id, lp.target.elts[0].id
                stores = [n for n in _walk(fn) if isinstance(n, ast.Name) and n.id == Q and
                          isinstance(n.ctx, (ast.Store, ast.Del))]
                if len(stores) != 1:
                    continue
                qdef = [n for n in _walk(fn) if isinstance(n, ast.Assign) and len(n.targets) == 1 and
                        n.targets[0] is stores[0]]
                if not qdef or not (isinstance(qdef[0].value, (ast.ListComp, ast.List)) or (
                        isinstance(qdef[0].value, ast.Call) and isinstance(qdef[0].value.func, ast.Name)
                        and qdef[0].value.func.id in ('list', 'sorted'))):
                    continue
                if any(isinstance(n, ast.Continue) for s_ in lp.body for n in ast.walk(s_)):
                    continue
                # classify every use of Q and i
                sites, ok = [], True
                parents = {}
                for n in _walk(fn):
                    for c in ast.iter_child_nodes(n):
                        parents[id(c)] = n

                def offset(sl):
                    if not (isinstance(sl, ast.Slice) and sl.upper is None and sl.step is None):
                        return None
                    lo = sl.lower
                    if isinstance(lo, ast.Name) and lo.id == i:
                        return 0
                    if isinstance(lo, ast.BinOp) and isinstance(lo.op, ast.Add) and \
                            isinstance(lo.left, ast.Name) and lo.left.id == i and \
                            isinstance(lo.right, ast.Constant) and lo.right.value == 1:
                        return 1
                    return None
                inside = {id(n) for s_ in lp.body for n in ast.walk(s_)}
                for n in _walk(fn):
                    if isinstance(n, ast.Name) and n.id == Q and isinstance(n.ctx, ast.Load):
                        if n is lp.iter.args[0]:
                            continue
                        par = parents.get(id(n))
                        gp = parents.get(id(par))
                        if id(n) in inside and isinstance(par, ast.Subscript) and par.value is n and \
                                offset(par.slice) is not None and isinstance(gp, ast.Assign) and \
                                gp.value is par and len(gp.targets) == 1 and \
                                isinstance(gp.targets[0], ast.Name):
                            sites.append((gp, offset(par.slice)))
                        else:
                            ok = False
                    if isinstance(n, ast.Name) and n.id == i and n is not lp.target.elts[0]:
                        par = parents.get(id(n))
                        while par is not None and not isinstance(par, ast.Slice):
                            if isinstance(par, ast.stmt):
                                par = None
                                break
                            par = parents.get(id(par))
                        if par is None or offset(par) is None:
                            ok = False
                if not ok or not sites:
                    continue
                # each site lies in a block that ends by leaving the loop
                site_blocks = {}
                for b2, _o in _fn_blocks(lp):
                    for k, st in enumerate(b2):
                        for gp, off in sites:
                            if st is gp:
                                site_blocks[id(gp)] = (b2, k)
                if len(site_blocks) != len(sites) or not all(_is_jump(b2[-1]) for b2, _k in site_blocks.values()):
                    continue
                for gp, off in sites:
                    b2, _k = site_blocks[id(gp)]
                    k = [j for j, x in enumerate(b2) if x is gp][0]
                    gp.value = ast.copy_location(ast.Name(id=Q, ctx=ast.Load()), gp.value)
                    if off == 1:
                        pop = ast.Expr(value=ast.Call(func=ast.Attribute(
                            value=ast.Name(id=Q, ctx=ast.Load()), attr='pop', ctx=ast.Load()),
                            args=[ast.Constant(value=0)], keywords=[]))
                        b2.insert(k, ast.copy_location(pop, gp))
                head = ast.Assign(targets=[lp.target.elts[1]], value=ast.Subscript(
                    value=ast.Name(id=Q, ctx=ast.Load()), slice=ast.Constant(value=0), ctx=ast.Load()))
                tail = ast.Expr(value=ast.Call(func=ast.Attribute(
                    value=ast.Name(id=Q, ctx=ast.Load()), attr='pop', ctx=ast.Load()),
                    args=[ast.Constant(value=0)], keywords=[]))
                body = [ast.copy_location(head, lp)] + lp.body
                if not _is_jump(body[-1]):
                    body.append(ast.copy_location(tail, lp))
                wl = ast.copy_location(ast.While(test=ast.Name(id=Q, ctx=ast.Load()), body=body, orelse=[]), lp)
                j = [k for k, x in enumerate(blk) if x is lp][0]
                blk[j] = wl
                ast.fix_missing_locations(fn)
                # names that are the queue
                xs = {gp.targets[0].id for gp, _off in sites}
                for X in xs:
                    defs = [n for n in _walk(fn) if isinstance(n, ast.Assign) and
                            any(isinstance(t, ast.Name) and t.id == X for t in n.targets)]
                    other = [n for n in _walk(fn) if isinstance(n, ast.Name) and n.id == X and
                             isinstance(n.ctx, (ast.Store, ast.Del)) and
                             not any(n in d.targets for d in defs)]
                    good = not other
                    after = blk[j + 1] if j + 1 < len(blk) else None
                    for d in defs:
                        if len(d.targets) != 1:
                            good = False
                        elif isinstance(d.value, ast.Name) and d.value.id == Q:
                            pass
                        elif isinstance(d.value, ast.List) and not d.value.elts and d is after:
                            pass
                        else:
                            good = False
                    if not good:
                        continue
                    for n in _walk(fn):
                        if isinstance(n, ast.Name) and n.id == X and isinstance(n.ctx, ast.Load):
                            n.id = Q
                    for b3, _o in _fn_blocks(fn):
                        b3[:] = [x for x in b3 if not any(x is d for d in defs)] or [ast.Pass()]
                    ast.fix_missing_locations(fn)


def loop_var_indexing_to_unpack(tree):
    """``for e in X: ... e[0] ... e[2] ...`` where the loop variable is only ever read through
    constant non-negative indexes (and is not stored in the body) is the unpacking loop
    ``for (e__0, e__1, e__2) in X`` -- how the rows are named, not what is done with them.  (The
    width is the largest index used + 1; for analysis only, nothing is executed.)"""
    for fn in [n for n in ast.walk(tree) if isinstance(n, (ast.FunctionDef, ast.AsyncFunctionDef))]:
        for lp in [n for n in _walk(fn) if isinstance(n, ast.For) and isinstance(n.target, ast.Name)]:
            v = lp.target.id
            parents = {}
            for n in ast.walk(fn):
                for c in ast.iter_child_nodes(n):
                    parents[id(c)] = n
            uses = [n for n in ast.walk(fn) if isinstance(n, ast.Name) and n.id == v and n is not lp.target]
            inside = {id(n) for s_ in lp.body for n in ast.walk(s_)}
            idx = []
            ok = bool(uses)
            for n in uses:
                par = parents.get(id(n))
                if id(n) in inside and isinstance(n.ctx, ast.Load) and isinstance(par, ast.Subscript) and \
                        par.value is n and isinstance(par.ctx, ast.Load) and \
                        isinstance(par.slice, ast.Constant) and isinstance(par.slice.value, int) and \
                        not isinstance(par.slice.value, bool) and 0 <= par.slice.value < 8:
                    idx.append((par, par.slice.value))
                else:
                    ok = False
            if not ok or not idx:
                continue
            width = max(k for _p, k in idx) + 1
            if width < 2:
                continue
            names = ['%s__%d' % (v, k) for k in range(width)]
            taken = {n.id for n in ast.walk(fn) if isinstance(n, ast.Name)}
            if set(names) & taken:
                continue
            lp.target = ast.copy_location(ast.Tuple(
                elts=[ast.Name(id=nm, ctx=ast.Store()) for nm in names], ctx=ast.Store()), lp.target)

            class T(ast.NodeTransformer):
                def visit_Subscript(self, n):
                    self.generic_visit(n)
                    for par, k in idx:
                        if n is par:
                            return ast.copy_location(ast.Name(id=names[k], ctx=ast.Load()), n)
                    return n
            for i_, st in enumerate(lp.body):
                lp.body[i_] = T().visit(st)
            ast.fix_missing_locations(fn)


def split_keyed_lists(tree):
    """A local ``D = {K1: [], K2: []}`` (constant keys, fresh empty lists) that is only ever
    subscripted is one list per key: ``D[K1]`` is the local ``D__K1``; ``D[k].m(a)`` as a statement
    with a variable key becomes ``if k == K1: D__K1.m(a) else: D__K2.m(a)`` (for the keys True /
    False: ``if k: ... else: ...``)."""
    import copy
    for fn in [n for n in ast.walk(tree) if isinstance(n, (ast.FunctionDef, ast.AsyncFunctionDef))]:
        for blk, _owner in list(_fn_blocks(fn)):
            for st in list(blk):
                if not (isinstance(st, ast.Assign) and len(st.targets) == 1 and
                        isinstance(st.targets[0], ast.Name) and isinstance(st.value, ast.Dict) and
                        1 < len(st.value.keys) <= 4 and
                        all(isinstance(k, ast.Constant) and isinstance(k.value, (bool, str, int))
                            for k in st.value.keys) and
                        all(isinstance(x, ast.List) and not x.elts for x in st.value.values)):
                    continue
                D = st.targets[0].id
                keys = [k.value for k in st.value.keys]
                if len(set(map(repr, keys))) != len(keys):
                    continue
                parents = {}
                for n in ast.walk(fn):
                    for c in ast.iter_child_nodes(n):
                        parents[id(c)] = n
                uses = [n for n in ast.walk(fn) if isinstance(n, ast.Name) and n.id == D and
                        n is not st.targets[0]]
                const_sites, var_sites, ok = [], [], bool(uses)
                for n in uses:
                    par = parents.get(id(n))
                    if not (isinstance(n.ctx, ast.Load) and isinstance(par, ast.Subscript) and
                            par.value is n and isinstance(par.ctx, ast.Load)):
                        ok = False
                        break
                    if isinstance(par.slice, ast.Constant) and any(
                            repr(par.slice.value) == repr(k) for k in keys):
                        const_sites.append(par)
                        continue
                    # D[k].m(args) as an expression statement, k a plain name
                    a = parents.get(id(par))
                    c = parents.get(id(a))
                    e = parents.get(id(c))
                    if isinstance(par.slice, ast.Name) and isinstance(a, ast.Attribute) and a.value is par \
                            and isinstance(c, ast.Call) and c.func is a and isinstance(e, ast.Expr) and \
                            e.value is c:
                        var_sites.append((e, par))
                        continue
                    ok = False
                    break
                if not ok:
                    continue
                taken = {n.id for n in ast.walk(fn) if isinstance(n, ast.Name)}
                nm = {repr(k): '%s__%s' % (D, str(k)) for k in keys}
                if set(nm.values()) & taken:
                    continue
                # variable-key statements first (they are replaced as whole statements)
                for e, par in var_sites:
                    kname = par.slice
                    alts = []
                    for k in keys:
                        cp = copy.deepcopy(e)
                        for x in ast.walk(cp):
                            if isinstance(x, ast.Attribute) and isinstance(x.value, ast.Subscript) and \
                                    isinstance(x.value.value, ast.Name) and x.value.value.id == D:
                                x.value = ast.Name(id=nm[repr(k)], ctx=ast.Load())
                        alts.append((k, cp))
                    if set(map(repr, keys)) == {'True', 'False'}:
                        t = dict((repr(k), cp) for k, cp in alts)
                        new = ast.If(test=copy.deepcopy(kname), body=[t['True']], orelse=[t['False']])
                    else:
                        new = None
                        for k, cp in reversed(alts):
                            if new is None:
                                new = cp
                            else:
                                new = ast.If(test=ast.Compare(left=copy.deepcopy(kname), ops=[ast.Eq()],
                                                              comparators=[ast.Constant(value=k)]),
                                             body=[cp], orelse=[new])
                    for b2, _o in _fn_blocks(fn):
                        for j, x in enumerate(b2):
                            if x is e:
                                b2[j] = ast.copy_location(new, e)

                class T(ast.NodeTransformer):
                    def visit_Subscript(self, n):
                        self.generic_visit(n)
                        if isinstance(n.value, ast.Name) and n.value.id == D and \
                                isinstance(n.slice, ast.Constant) and repr(n.slice.value) in nm:
                            return ast.copy_location(ast.Name(id=nm[repr(n.slice.value)], ctx=ast.Load()), n)
                        return n
                T().visit(fn)
                j = [k for k, x in enumerate(blk) if x is st][0]
                blk[j:j + 1] = [ast.copy_location(ast.Assign(
                    targets=[ast.Name(id=nm[repr(k)], ctx=ast.Store())],
                    value=ast.List(elts=[], ctx=ast.Load())), st) for k in keys]
                ast.fix_missing_locations(fn)


def merge_adjacent_ifs(tree):
    """``if c: A`` directly followed by ``if c: B else: C`` on the same plain local c, where A does
    not assign c: one statement ``if c: A; B else: C``.  Then ``c = <call-free or pure method
    expression>`` directly followed by the only statement that reads c, an ``if`` testing it:
    the expression is put into the test."""
    import copy
    for fn in [n for n in ast.walk(tree) if isinstance(n, (ast.FunctionDef, ast.AsyncFunctionDef))]:
        changed = True
        while changed:
            changed = False
            for blk, _owner in list(_fn_blocks(fn)):
                i = 0
                while i + 1 < len(blk):
                    a, b = blk[i], blk[i + 1]
                    if isinstance(a, ast.If) and isinstance(b, ast.If) and not a.orelse and \
                            isinstance(a.test, ast.Name) and isinstance(b.test, ast.Name) and \
                            a.test.id == b.test.id and not any(
                                isinstance(x, ast.Name) and x.id == a.test.id and
                                isinstance(x.ctx, (ast.Store, ast.Del)) for s_ in a.body for x in ast.walk(s_)) \
                            and not any(isinstance(x, (ast.Break, ast.Continue, ast.Return, ast.Raise))
                                        for s_ in a.body for x in ast.walk(s_)):
                        b.body = a.body + b.body
                        del blk[i]
                        changed = True
                        continue
                    i += 1
        loads = {}
        for n in ast.walk(fn):
            if isinstance(n, ast.Name) and isinstance(n.ctx, ast.Load):
                loads[n.id] = loads.get(n.id, 0) + 1
        params = {a.arg for a in ast.walk(fn) if isinstance(a, ast.arg)}
        for blk, _owner in list(_fn_blocks(fn)):
            i = 0
            while i + 1 < len(blk):
                a, b = blk[i], blk[i + 1]
                if isinstance(a, ast.Assign) and len(a.targets) == 1 and isinstance(a.targets[0], ast.Name) \
                        and isinstance(b, ast.If) and a.targets[0].id not in params:
                    v = a.targets[0].id
                    t = b.test
                    inner = t.operand if isinstance(t, ast.UnaryOp) and isinstance(t.op, ast.Not) else t
                    stores = [x for x in ast.walk(fn) if isinstance(x, ast.Name) and x.id == v and
                              isinstance(x.ctx, (ast.Store, ast.Del))]
                    if isinstance(inner, ast.Name) and inner.id == v and loads.get(v) == 1 and \
                            len(stores) == 1 and not any(
                                isinstance(x, (ast.Yield, ast.YieldFrom, ast.Await, ast.NamedExpr, ast.Lambda))
                                for x in ast.walk(a.value)):
                        if inner is t:
                            b.test = a.value
                        else:
                            t.operand = a.value
                        del blk[i]
                        continue
                    # x is used elsewhere too: the test right after ``x = <attribute chain>`` still
                    # reads exactly that value -- say so in the test, keep the binding
                    if isinstance(inner, ast.Name) and inner.id == v and isinstance(a.value, ast.Attribute) \
                            and not any(isinstance(x, (ast.Call, ast.Subscript)) for x in ast.walk(a.value)):
                        import copy as _copy
                        new = ast.copy_location(_copy.deepcopy(a.value), inner)
                        if inner is t:
                            b.test = new
                        else:
                            t.operand = new
                i += 1
        ast.fix_missing_locations(fn)


def coalesce_aliases(tree):
    """``Y = X`` between two plain locals that are each assigned exactly once (X not a parameter, X
    not read before... anywhere it matters: both names denote the same object for the rest of the
    function): X is renamed to Y and the alias statement disappears."""
    for fn in [n for n in ast.walk(tree) if isinstance(n, (ast.FunctionDef, ast.AsyncFunctionDef))]:
        params = {a.arg for a in fn.args.posonlyargs + fn.args.args + fn.args.kwonlyargs}
        if fn.args.vararg:
            params.add(fn.args.vararg.arg)
        if fn.args.kwarg:
            params.add(fn.args.kwarg.arg)
        again = True
        while again:
            again = False
            stores = {}
            for n in _walk(fn):
                if isinstance(n, ast.Name) and isinstance(n.ctx, (ast.Store, ast.Del)):
                    stores[n.id] = stores.get(n.id, 0) + 1
                elif isinstance(n, (ast.FunctionDef, ast.ClassDef, ast.AsyncFunctionDef)):
                    stores[n.name] = stores.get(n.name, 0) + 2
                elif isinstance(n, (ast.Global, ast.Nonlocal)):
                    for nm in n.names:
                        stores[nm] = stores.get(nm, 0) + 2
                elif isinstance(n, (ast.Import, ast.ImportFrom)):
                    for a in n.names:
                        nm = (a.asname or a.name).split('.')[0]
                        stores[nm] = stores.get(nm, 0) + 2
            # names stored in nested scopes (closures rebinding) are not plain
            for sub in ast.walk(fn):
                if sub is not fn and isinstance(sub, (ast.FunctionDef, ast.Lambda, ast.AsyncFunctionDef)):
                    for a in ast.walk(sub):
                        if isinstance(a, ast.arg):
                            stores[a.arg] = stores.get(a.arg, 0) + 2
                        if isinstance(a, ast.Name) and isinstance(a.ctx, (ast.Store, ast.Del)):
                            stores[a.id] = stores.get(a.id, 0) + 2
            for blk, _owner in list(_fn_blocks(fn)):
                for st in list(blk):
                    if isinstance(st, ast.Assign) and len(st.targets) == 1 and \
                            isinstance(st.targets[0], ast.Name) and isinstance(st.value, ast.Name):
                        Y, X = st.targets[0].id, st.value.id
                        if X == Y or X in params or Y in params or stores.get(X) != 1 or stores.get(Y) != 1:
                            continue
                        if blk is not fn.body:
                            continue        # a conditional alias is not an identity
                        # X must be defined at the top level of the function as well (dominates)
                        xdef = [s_ for s_ in fn.body if isinstance(s_, ast.Assign) and any(
                            isinstance(t, ast.Name) and t.id == X for t in s_.targets)]
                        if len(xdef) != 1:
                            continue
                        for n in ast.walk(fn):
                            if isinstance(n, ast.Name) and n.id == X:
                                n.id = Y
                        blk.remove(st)
                        again = True
                        break
                if again:
                    break


def fuse_comprehension_loops(tree):
    """``L = [E for x in I if c]`` directly followed by ``for y in L: BODY`` (L has no other use,
    BODY neither rebinds nor calls a method on a name that I, c or E read):
    ``for x in I: if c: y = E; BODY`` -- building the list first or filtering on the fly visit
    the same elements in the same order."""
    import copy
    for fn in [n for n in ast.walk(tree) if isinstance(n, (ast.FunctionDef, ast.AsyncFunctionDef))]:
        for blk, _owner in list(_fn_blocks(fn)):
            i = 0
            while i + 1 < len(blk):
                a, lp = blk[i], blk[i + 1]
                comp = None
                if isinstance(a, ast.Assign) and len(a.targets) == 1 and isinstance(a.targets[0], ast.Name):
                    v = a.value
                    if isinstance(v, ast.ListComp):
                        comp = v
                    elif isinstance(v, ast.Call) and isinstance(v.func, ast.Name) and v.func.id in ('list', 'tuple') \
                            and len(v.args) == 1 and isinstance(v.args[0], (ast.GeneratorExp, ast.ListComp)):
                        comp = v.args[0]
                if comp is None or not (isinstance(lp, ast.For) and not lp.orelse and
                                        isinstance(lp.iter, ast.Name) and lp.iter.id == a.targets[0].id and
                                        len(comp.generators) == 1 and not comp.generators[0].is_async and
                                        isinstance(lp.target, ast.Name)):
                    i += 1
                    continue
                L = a.targets[0].id
                uses = [n for n in ast.walk(fn) if isinstance(n, ast.Name) and n.id == L]
                if len(uses) != 2:
                    i += 1
                    continue
                gen = comp.generators[0]
                reads = {n.id for e in [gen.iter, comp.elt] + list(gen.ifs) for n in ast.walk(e)
                         if isinstance(n, ast.Name)}
                tnames = {n.id for n in ast.walk(gen.target) if isinstance(n, ast.Name)}
                touched = set()
                for s_ in lp.body:
                    for n in ast.walk(s_):
                        if isinstance(n, ast.Name) and isinstance(n.ctx, (ast.Store, ast.Del)):
                            touched.add(n.id)
                        if isinstance(n, ast.Call) and isinstance(n.func, ast.Attribute) and \
                                isinstance(n.func.value, ast.Name):
                            touched.add(n.func.value.id)
                        if isinstance(n, (ast.Subscript, ast.Attribute)) and \
                                isinstance(n.ctx, (ast.Store, ast.Del)) and isinstance(n.value, ast.Name):
                            touched.add(n.value.id)
                bodynames = {n.id for s_ in lp.body for n in ast.walk(s_) if isinstance(n, ast.Name)}
                # a method call on a module-level name (os.unlink, re.compile) does not change what
                # the comprehension reads from the function's own data
                local = {n.id for n in ast.walk(fn) if isinstance(n, ast.Name) and
                         isinstance(n.ctx, (ast.Store, ast.Del))} | {a.arg for a in ast.walk(fn)
                                                                     if isinstance(a, ast.arg)}
                touched &= local
                if (reads - tnames) & touched or (tnames & bodynames and
                                                   not (isinstance(comp.elt, ast.Name) and
                                                        comp.elt.id == lp.target.id)):
                    i += 1
                    continue
                if any(isinstance(n, (ast.Yield, ast.YieldFrom, ast.Await, ast.NamedExpr))
                       for e in [comp.elt] + list(gen.ifs) for n in ast.walk(e)):
                    i += 1
                    continue
                inner = list(lp.body)
                if not (isinstance(comp.elt, ast.Name) and comp.elt.id == lp.target.id and
                        isinstance(gen.target, ast.Name) and gen.target.id == lp.target.id):
                    inner = [ast.copy_location(ast.Assign(targets=[lp.target], value=comp.elt), lp)] + inner
                if gen.ifs:
                    test = gen.ifs[0] if len(gen.ifs) == 1 else ast.BoolOp(op=ast.And(), values=list(gen.ifs))
                    inner = [ast.copy_location(ast.If(test=test, body=inner, orelse=[]), lp)]
                tgt = copy.deepcopy(gen.target)
                for n in ast.walk(tgt):
                    if isinstance(n, (ast.Name, ast.Tuple, ast.List)):
                        n.ctx = ast.Store()
                new = ast.copy_location(ast.For(target=tgt, iter=gen.iter, body=inner, orelse=[]), lp)
                blk[i:i + 2] = [ast.fix_missing_locations(new)]
        ast.fix_missing_locations(fn)


def _named_format(fmt, fields):
    """('%(a)s and %(b)d' , fields) -> ('%s and %d', ['a', 'b']); None if the string also has
    positional conversions or names a key the dict display does not have"""
    import re
    order = []
    pat = re.compile(r'%(?:\((\w+)\))?([#0\- +]*(?:\d+|\*)?(?:\.(?:\d+|\*))?[hlL]?[diouxXeEfFgGcrsa%])')
    out, pos = [], 0
    for m_ in pat.finditer(fmt):
        out.append(fmt[pos:m_.start()])
        pos = m_.end()
        if m_.group(2).endswith('%') and m_.group(1) is None:
            out.append('%%')
            continue
        if m_.group(1) is None or m_.group(1) not in fields:
            return None
        order.append(m_.group(1))
        out.append('%' + m_.group(2))
    out.append(fmt[pos:])
    if not order:
        return None
    return ''.join(out), order


def phi_dict_kwargs(tree):
    """``if c: D = {..} else: D = {..}`` (dict displays) directly followed by a statement whose only
    use of D is ``**D`` in a call, D not used anywhere else: the statement gets
    ``**({..} if c else {..})``, which dissolve_dict_literals turns into an if over the two calls"""
    for fn in [n for n in ast.walk(tree) if isinstance(n, (ast.FunctionDef, ast.AsyncFunctionDef))]:
        for blk, _owner in list(_fn_blocks(fn)):
            i = 0
            while i + 1 < len(blk):
                a, b = blk[i], blk[i + 1]
                if isinstance(a, ast.If) and len(a.body) == 1 and len(a.orelse) == 1 and \
                        all(isinstance(x, ast.Assign) and len(x.targets) == 1 and isinstance(x.targets[0], ast.Name)
                            and isinstance(x.value, ast.Dict) for x in (a.body[0], a.orelse[0])) and \
                        a.body[0].targets[0].id == a.orelse[0].targets[0].id:
                    D = a.body[0].targets[0].id
                    uses = [n for n in ast.walk(fn) if isinstance(n, ast.Name) and n.id == D]
                    stars = [k for c in ast.walk(b) if isinstance(c, ast.Call) for k in c.keywords
                             if k.arg is None and isinstance(k.value, ast.Name) and k.value.id == D]
                    if len(uses) == 3 and len(stars) == 1 and not any(
                            isinstance(n, ast.Name) and n.id == D for n in ast.walk(a.test)):
                        stars[0].value = ast.copy_location(
                            ast.IfExp(test=a.test, body=a.body[0].value, orelse=a.orelse[0].value), a)
                        ast.fix_missing_locations(b)
                        del blk[i]
                        continue
                i += 1


def dissolve_dict_literals(tree):
    """A local bound exactly once to a dict display with constant string keys and call-free values
    that is only ever read as ``D['key']``, ``**D`` in a call or ``fmt % D`` is a record of named
    values: ``D['key']`` becomes the value, ``f(**D)`` becomes ``f(key=value, ...)``.  A call
    ``f(**{'k': v})`` gets the keywords directly, and a statement ``return f(**(A if c else B))`` /
    ``f(**(A if c else B))`` becomes an if statement over the two calls."""
    import copy

    def pure(e):
        return not any(isinstance(x, (ast.Call, ast.Await, ast.Yield, ast.YieldFrom, ast.NamedExpr, ast.Lambda))
                       for x in ast.walk(e)) or all(
            isinstance(x, ast.Call) and isinstance(x.func, ast.Name) and x.func.id in ('len', 'str', 'repr')
            for x in ast.walk(e) if isinstance(x, ast.Call))
    for fn in [n for n in ast.walk(tree) if isinstance(n, (ast.FunctionDef, ast.AsyncFunctionDef))]:
        # 1. conditional ** argument at statement level
        for blk, _owner in list(_fn_blocks(fn)):
            for j, st in enumerate(list(blk)):
                call = st.value if isinstance(st, (ast.Return, ast.Expr)) and isinstance(
                    getattr(st, 'value', None), ast.Call) else None
                if call is None:
                    continue
                ks = [k for k in call.keywords if k.arg is None and isinstance(k.value, ast.IfExp)]
                if len(ks) == 1 and pure(ks[0].value.test):
                    k = ks[0]
                    a, b = copy.deepcopy(st), copy.deepcopy(st)
                    for variant, val in ((a, k.value.body), (b, k.value.orelse)):
                        for kk in variant.value.keywords:
                            if kk.arg is None and isinstance(kk.value, ast.IfExp):
                                kk.value = copy.deepcopy(val)
                    idx = [i_ for i_, x in enumerate(blk) if x is st][0]
                    blk[idx] = ast.fix_missing_locations(ast.copy_location(
                        ast.If(test=k.value.test, body=[a], orelse=[b]), st))
        # 2. ** of a dict display
        for c in [n for n in ast.walk(fn) if isinstance(n, ast.Call)]:
            new = []
            for k in c.keywords:
                if k.arg is None and isinstance(k.value, ast.Dict) and all(
                        isinstance(x, ast.Constant) and isinstance(x.value, str) and x.value.isidentifier()
                        for x in k.value.keys):
                    new.extend(ast.keyword(arg=x.value, value=v) for x, v in zip(k.value.keys, k.value.values))
                else:
                    new.append(k)
            c.keywords = new
        # 3. record locals
        parents = {}
        for n in ast.walk(fn):
            for ch in ast.iter_child_nodes(n):
                parents[id(ch)] = n
        for blk, _owner in list(_fn_blocks(fn)):
            for st in list(blk):
                if not (isinstance(st, ast.Assign) and len(st.targets) == 1 and
                        isinstance(st.targets[0], ast.Name) and isinstance(st.value, ast.Dict) and
                        st.value.keys and all(isinstance(k, ast.Constant) and isinstance(k.value, str)
                                              for k in st.value.keys)):
                    continue
                D = st.targets[0].id
                uses = [n for n in ast.walk(fn) if isinstance(n, ast.Name) and n.id == D and
                        n is not st.targets[0]]
                if not all(pure(v) for v in st.value.values):
                    # values with calls: only when the single use is in the very next statement
                    k_ = [i_ for i_, x in enumerate(blk) if x is st][0]
                    nxt_ = blk[k_ + 1] if k_ + 1 < len(blk) else None
                    if not (len(uses) == 1 and nxt_ is not None and
                            any(x is uses[0] for x in ast.walk(nxt_)) and
                            sum(1 for v in st.value.values if not pure(v)) == 1):
                        continue
                fields = {k.value: v for k, v in zip(st.value.keys, st.value.values)}
                if len(fields) != len(st.value.keys) or not uses:
                    continue
                # the values must still mean the same where they are used: the names they read are
                # not rebound anywhere in the function
                vnames = {x.id for v in fields.values() for x in ast.walk(v) if isinstance(x, ast.Name)}
                stored = {}
                for x in ast.walk(fn):
                    if isinstance(x, ast.Name) and isinstance(x.ctx, (ast.Store, ast.Del)):
                        stored[x.id] = stored.get(x.id, 0) + 1
                params = {a.arg for a in ast.walk(fn) if isinstance(a, ast.arg)}
                if any(stored.get(v, 0) > (0 if v in params else 1) for v in vnames) or stored.get(D) != 1:
                    continue
                plan, ok = [], True
                for n in uses:
                    par = parents.get(id(n))
                    if isinstance(n.ctx, ast.Load) and isinstance(par, ast.Subscript) and par.value is n and \
                            isinstance(par.ctx, ast.Load) and isinstance(par.slice, ast.Constant) and \
                            par.slice.value in fields:
                        plan.append(('sub', par))
                    elif isinstance(par, ast.keyword) and par.arg is None and par.value is n and \
                            all(k.isidentifier() for k in fields):
                        plan.append(('kw', par))
                    elif isinstance(par, ast.BinOp) and isinstance(par.op, ast.Mod) and par.right is n and \
                            isinstance(par.left, ast.Constant) and isinstance(par.left.value, str) and \
                            _named_format(par.left.value, fields) is not None:
                        plan.append(('fmt', par))
                    else:
                        ok = False
                if not ok:
                    continue
                for kind, node in plan:
                    if kind == 'fmt':
                        fmt, order = _named_format(node.left.value, fields)
                        node.left = ast.copy_location(ast.Constant(value=fmt), node.left)
                        node.right = ast.copy_location(ast.Tuple(
                            elts=[copy.deepcopy(fields[k]) for k in order], ctx=ast.Load()), node.right)
                    if kind == 'kw':
                        call = parents.get(id(node))
                        i_ = call.keywords.index(node)
                        call.keywords[i_:i_ + 1] = [ast.keyword(arg=k, value=copy.deepcopy(v))
                                                    for k, v in fields.items()]

                class T(ast.NodeTransformer):
                    def visit_Subscript(self, n):
                        self.generic_visit(n)
                        for kind, node in plan:
                            if kind == 'sub' and node is n:
                                return ast.copy_location(copy.deepcopy(fields[n.slice.value]), n)
                        return n
                T().visit(fn)
                blk.remove(st)
                if not blk:
                    blk.append(ast.Pass())
        ast.fix_missing_locations(fn)


def propagate_param_copies(tree):
    """``x = p`` where p is a parameter that is never rebound: until x is bound again (same block,
    nested statements included when they do not bind x) every read of x is a read of p; a binding
    that is not read afterwards is dropped.  (Several unrolled copies of one loop body re-use one
    local for different parameters: ``content = stdout ... content = stderr ...``.)"""
    for fn in [n for n in ast.walk(tree) if isinstance(n, (ast.FunctionDef, ast.AsyncFunctionDef))]:
        params = {a.arg for a in fn.args.posonlyargs + fn.args.args + fn.args.kwonlyargs}
        stored = {n.id for n in ast.walk(fn) if isinstance(n, ast.Name) and
                  isinstance(n.ctx, (ast.Store, ast.Del))}
        stable = params - stored
        if not stable:
            continue
        nested_names = {n.id for sub in ast.walk(fn) if sub is not fn and
                        isinstance(sub, (ast.FunctionDef, ast.Lambda, ast.AsyncFunctionDef))
                        for n in ast.walk(sub) if isinstance(n, ast.Name)}

        def binds(node, x):
            return any(isinstance(n, ast.Name) and n.id == x and isinstance(n.ctx, (ast.Store, ast.Del))
                       for n in ast.walk(node))
        for blk, _owner in list(_fn_blocks(fn)):
            i = 0
            while i < len(blk):
                st = blk[i]
                if isinstance(st, ast.Assign) and len(st.targets) == 1 and isinstance(st.targets[0], ast.Name) \
                        and isinstance(st.value, ast.Name) and st.value.id in stable and \
                        st.targets[0].id not in params and st.targets[0].id not in nested_names:
                    x, p_ = st.targets[0].id, st.value.id
                    j = i + 1
                    complete = True
                    while j < len(blk):
                        nxt = blk[j]
                        if binds(nxt, x):
                            # reads inside the binding statement (its right-hand side) come first
                            if isinstance(nxt, ast.Assign) and not any(
                                    binds(t, x) and not isinstance(t, ast.Name) for t in nxt.targets):
                                for n in ast.walk(nxt.value):
                                    if isinstance(n, ast.Name) and n.id == x and isinstance(n.ctx, ast.Load):
                                        n.id = p_
                            else:
                                complete = False
                            break
                        for n in ast.walk(nxt):
                            if isinstance(n, ast.Name) and n.id == x and isinstance(n.ctx, ast.Load):
                                n.id = p_
                        j += 1
                    # is x still read anywhere this definition may reach?  (end of block reached
                    # without a new binding: it may be read after the block)
                    reached_end = j >= len(blk)
                    still = False
                    if reached_end or not complete:
                        still = any(isinstance(n, ast.Name) and n.id == x and isinstance(n.ctx, ast.Load)
                                    for n in ast.walk(fn))
                    if not still:
                        del blk[i]
                        if not blk:
                            blk.append(ast.Pass())
                        continue
                i += 1


def flag_loops(tree):
    """``F = False`` directly followed by ``while not F: BODY; F = <expr>`` (F is assigned nowhere
    else in the loop, not read in BODY or after the loop, no else clause, no continue in BODY) is
    ``while True: BODY; if <expr>: break``."""
    for fn in [n for n in ast.walk(tree) if isinstance(n, (ast.FunctionDef, ast.AsyncFunctionDef))]:
        for blk, _owner in list(_fn_blocks(fn)):
            i = 0
            while i + 1 < len(blk):
                a, lp = blk[i], blk[i + 1]
                if isinstance(a, ast.Assign) and len(a.targets) == 1 and isinstance(a.targets[0], ast.Name) \
                        and isinstance(a.value, ast.Constant) and a.value.value is False and \
                        isinstance(lp, ast.While) and not lp.orelse and \
                        isinstance(lp.test, ast.UnaryOp) and isinstance(lp.test.op, ast.Not) and \
                        isinstance(lp.test.operand, ast.Name) and lp.test.operand.id == a.targets[0].id \
                        and lp.body:
                    F = a.targets[0].id
                    last = lp.body[-1]
                    uses = [n for n in ast.walk(fn) if isinstance(n, ast.Name) and n.id == F]
                    ok = isinstance(last, ast.Assign) and len(last.targets) == 1 and \
                        isinstance(last.targets[0], ast.Name) and last.targets[0].id == F and \
                        len(uses) == 3 and \
                        not any(isinstance(n, ast.Continue) for s_ in lp.body for n in ast.walk(s_))
                    if ok:
                        brk = ast.If(test=last.value, body=[ast.Break()], orelse=[])
                        lp.body[-1] = ast.copy_location(brk, last)
                        lp.test = ast.copy_location(ast.Constant(value=True), lp.test)
                        del blk[i]
                        ast.fix_missing_locations(fn)
                        continue
                i += 1


def _dotted_name(e):
    while isinstance(e, ast.Attribute):
        e = e.value
    return isinstance(e, ast.Name)


def merge_split_chain(tree):
    """``x = E`` (E a call) directly followed by ``S[k] = x`` (S, k plain names) is the chained
    assignment ``x = S[k] = E`` written in two statements: same evaluation and binding order"""
    for fn in [n for n in ast.walk(tree) if isinstance(n, (ast.FunctionDef, ast.AsyncFunctionDef))]:
        for blk, _owner in list(_fn_blocks(fn)):
            i = 0
            while i + 1 < len(blk):
                a, b = blk[i], blk[i + 1]
                if isinstance(a, ast.Assign) and len(a.targets) == 1 and isinstance(a.targets[0], ast.Name) and \
                        isinstance(a.value, ast.Call) and isinstance(b, ast.Assign) and len(b.targets) == 1 and \
                        isinstance(b.value, ast.Name) and b.value.id == a.targets[0].id and \
                        isinstance(b.targets[0], ast.Subscript) and isinstance(b.targets[0].value, ast.Name) and \
                        isinstance(b.targets[0].slice, ast.Name) and \
                        b.targets[0].value.id != a.targets[0].id and b.targets[0].slice.id != a.targets[0].id:
                    a.targets.append(b.targets[0])
                    del blk[i + 1]
                    continue
                i += 1


def forward_adjacent_temp(tree):
    """``x = E`` directly followed by ``T = x`` (T any target) where x is a plain local with no other
    use at all: ``T = E``."""
    for fn in [n for n in ast.walk(tree) if isinstance(n, (ast.FunctionDef, ast.AsyncFunctionDef))]:
        params = {a.arg for a in ast.walk(fn) if isinstance(a, ast.arg)}
        for blk, _owner in list(_fn_blocks(fn)):
            i = 0
            while i + 1 < len(blk):
                a, b = blk[i], blk[i + 1]
                if isinstance(a, ast.Assign) and len(a.targets) == 1 and isinstance(a.targets[0], ast.Name) \
                        and isinstance(b, ast.Assign) and isinstance(b.value, ast.Name) and \
                        b.value.id == a.targets[0].id and a.targets[0].id not in params:
                    x = a.targets[0].id
                    uses = [n for n in ast.walk(fn) if isinstance(n, ast.Name) and n.id == x]
                    if len(uses) == 2:
                        b.value = a.value
                        del blk[i]
                        continue
                # ``x = E`` directly followed by ``yield (... x ...)`` with x used exactly once there and
                # nowhere else, E a plain subscript / attribute read: substitute
                if isinstance(a, ast.Assign) and len(a.targets) == 1 and isinstance(a.targets[0], ast.Name) \
                        and isinstance(b, ast.Expr) and isinstance(b.value, ast.Yield) and \
                        isinstance(a.value, (ast.Subscript, ast.Attribute, ast.Name)) and \
                        a.targets[0].id not in params:
                    x = a.targets[0].id
                    uses = [n for n in ast.walk(fn) if isinstance(n, ast.Name) and n.id == x]
                    inb = [n for n in ast.walk(b) if isinstance(n, ast.Name) and n.id == x]
                    if len(uses) == 2 and len(inb) == 1:
                        class _Sub(ast.NodeTransformer):
                            def visit_Name(self, n):
                                return a.value if n.id == x and isinstance(n.ctx, ast.Load) else n
                        blk[i + 1] = _Sub().visit(b)
                        del blk[i]
                        continue
                # ``x = E`` directly followed by the statement ``f(x, ...)`` / ``o.m(x, ...)`` (f, o.m dotted
                # names: loading them has no effect), x the FIRST argument and used nowhere else:
                # ``f(E, ...)`` -- same evaluation order
                if isinstance(a, ast.Assign) and len(a.targets) == 1 and isinstance(a.targets[0], ast.Name) \
                        and isinstance(b, ast.Expr) and isinstance(b.value, ast.Call) and b.value.args and \
                        isinstance(b.value.args[0], ast.Name) and b.value.args[0].id == a.targets[0].id and \
                        _dotted_name(b.value.func) and a.targets[0].id not in params:
                    x = a.targets[0].id
                    uses = [n for n in ast.walk(fn) if isinstance(n, ast.Name) and n.id == x]
                    if len(uses) == 2:
                        b.value.args[0] = a.value
                        del blk[i]
                        continue
                # ``x = E`` directly followed by ``return x`` (no other use of x): ``return E``
                if isinstance(a, ast.Assign) and len(a.targets) == 1 and isinstance(a.targets[0], ast.Name) \
                        and isinstance(b, ast.Return) and isinstance(b.value, ast.Name) and \
                        b.value.id == a.targets[0].id and a.targets[0].id not in params:
                    x = a.targets[0].id
                    uses = [n for n in ast.walk(fn) if isinstance(n, ast.Name) and n.id == x]
                    if len(uses) == 2:
                        b.value = a.value
                        del blk[i]
                        continue
                i += 1


def unswitch_flag_loops(tree):
    """``F = <call-free expression>`` (the only assignment of the local F) ... ``for x in I: PRE; if F:
    A else: B; POST`` -- two loops that somebody merged through a flag read once per pass -- is
    ``if F: for x in I: PRE; A; POST  else: for x in I: PRE; B; POST`` (F is not stored in the loop,
    so the test has the same outcome in every iteration)"""
    import copy
    for fn in [n for n in ast.walk(tree) if isinstance(n, (ast.FunctionDef, ast.AsyncFunctionDef))]:
        params = {a.arg for a in ast.walk(fn) if isinstance(a, ast.arg)}
        stores = {}
        for n in ast.walk(fn):
            if isinstance(n, ast.Name) and isinstance(n.ctx, (ast.Store, ast.Del)):
                stores[n.id] = stores.get(n.id, 0) + 1
        single = {}
        for n in ast.walk(fn):
            if isinstance(n, ast.Assign) and len(n.targets) == 1 and isinstance(n.targets[0], ast.Name) and \
                    stores.get(n.targets[0].id) == 1 and n.targets[0].id not in params and \
                    not any(isinstance(x, (ast.Call, ast.Await, ast.NamedExpr, ast.Subscript)) for x in ast.walk(n.value)):
                single[n.targets[0].id] = n
        if not single:
            continue
        for blk, _owner in list(_fn_blocks(fn)):
            for j, st in enumerate(list(blk)):
                if not (isinstance(st, ast.For) and not st.orelse):
                    continue
                for k, sw in enumerate(st.body):
                    if not (isinstance(sw, ast.If) and sw.orelse):
                        continue
                    t = sw.test
                    neg = False
                    if isinstance(t, ast.UnaryOp) and isinstance(t.op, ast.Not):
                        t, neg = t.operand, True
                    if not (isinstance(t, ast.Name) and t.id in single):
                        continue
                    if any(isinstance(x, (ast.Yield, ast.YieldFrom)) for x in ast.walk(st)):
                        continue
                    pre, post = st.body[:k], st.body[k + 1:]
                    yes, no = (sw.orelse, sw.body) if neg else (sw.body, sw.orelse)
                    a = ast.copy_location(ast.For(target=copy.deepcopy(st.target), iter=copy.deepcopy(st.iter),
                                                  body=copy.deepcopy(pre) + yes + copy.deepcopy(post), orelse=[]), st)
                    b = ast.copy_location(ast.For(target=copy.deepcopy(st.target), iter=copy.deepcopy(st.iter),
                                                  body=copy.deepcopy(pre) + no + copy.deepcopy(post), orelse=[]), st)
                    idx = [i_ for i_, x in enumerate(blk) if x is st][0]
                    blk[idx] = ast.fix_missing_locations(ast.copy_location(
                        ast.If(test=ast.copy_location(ast.Name(id=t.id, ctx=ast.Load()), t), body=[a], orelse=[b]), st))
                    break


def canonicalise(tree, modname, log=None):
    """rename, in place, the locals that play the roles of TABLE to their canonical names"""
    from .deiter import iterator_stack_to_recursion
    iterator_stack_to_recursion(tree)
    phi_dict_kwargs(tree)
    dissolve_dict_literals(tree)
    propagate_param_copies(tree)
    from .normalise import _propagate
    for fn_ in [n for n in ast.walk(tree) if isinstance(n, ast.FunctionDef)]:
        _propagate(fn_)          # f = a.b.method ... f(x)  ->  a.b.method(x)
    orient_comparisons(tree)
    unswitch_flag_loops(tree)
    split_parallel_assign(tree)
    unzip_pairs(tree)
    loops_to_comprehensions(tree)
    forward_adjacent_temp(tree)
    merge_split_chain(tree)
    countdown_loops(tree)
    flag_loops(tree)
    index_walk_to_queue(tree)
    loop_var_indexing_to_unpack(tree)
    split_keyed_lists(tree)
    merge_adjacent_ifs(tree)
    coalesce_aliases(tree)
    inline_loop_iterables(tree)
    fuse_comprehension_loops(tree)
    for qual, roles in TABLE.items():
        mod, _, rest = qual.partition('.')
        if mod != modname:
            continue
        fn = _find_func(tree, rest.split('.'))
        if fn is None or isinstance(fn, ast.ClassDef):
            continue
        for canon, finder in roles:
            try:
                cur = finder(fn)
            except Exception:
                cur = None
            if cur is None or cur == canon:
                continue
            params = {a.arg for a in fn.args.posonlyargs + fn.args.args + fn.args.kwonlyargs}
            if cur in params or canon in _names_in(fn):
                continue            # not a plain local, or the canonical name means something else here
            for n in ast.walk(fn):
                if isinstance(n, ast.Name) and n.id == cur:
                    n.id = canon
                elif isinstance(n, ast.ExceptHandler) and n.name == cur:
                    n.name = canon
            if log is not None:
                log.append((qual, cur, canon))
    return tree
